//! Source instrumentation for dynamic symbolic execution: operators, branch conditions, computed member
//! accesses, calls and `new` are routed through the `$S` runtime object (see /verif/jsdse/S.mjs).
//! With no symbolic operand every hook performs the native operation, so an instrumented module run on
//! concrete inputs behaves like the stripped one (checked by the engine's differential self-test).
use swc_common::{SyntaxContext, DUMMY_SP};
use swc_ecma_ast::*;
use swc_ecma_visit::{VisitMut, VisitMutWith};

fn ident(name: &str) -> Ident {
    Ident::new(name.into(), DUMMY_SP, SyntaxContext::empty())
}
fn s_member(name: &str) -> Callee {
    Callee::Expr(Box::new(Expr::Member(MemberExpr {
        span: DUMMY_SP,
        obj: Box::new(Expr::Ident(ident("$S"))),
        prop: MemberProp::Ident(IdentName { span: DUMMY_SP, sym: name.into() }),
    })))
}
fn arg(e: Expr) -> ExprOrSpread {
    ExprOrSpread { spread: None, expr: Box::new(e) }
}
fn strlit(s: &str) -> Expr {
    Expr::Lit(Lit::Str(Str { span: DUMMY_SP, value: s.into(), raw: None }))
}
fn call(name: &str, args: Vec<ExprOrSpread>) -> Expr {
    Expr::Call(CallExpr { span: DUMMY_SP, ctxt: SyntaxContext::empty(), callee: s_member(name), args, type_args: None })
}
fn thunk(e: Expr) -> Expr {
    // an object literal as arrow body must be parenthesised, otherwise it prints as an empty block
    let e = match e {
        Expr::Object(_) => Expr::Paren(ParenExpr { span: DUMMY_SP, expr: Box::new(e) }),
        other => other,
    };
    Expr::Arrow(ArrowExpr {
        span: DUMMY_SP,
        ctxt: SyntaxContext::empty(),
        params: vec![],
        body: Box::new(BlockStmtOrExpr::Expr(Box::new(e))),
        is_async: false,
        is_generator: false,
        type_params: None,
        return_type: None,
    })
}
fn array(elems: Vec<ExprOrSpread>) -> Expr {
    Expr::Array(ArrayLit { span: DUMMY_SP, elems: elems.into_iter().map(Some).collect() })
}
fn take(e: &mut Expr) -> Expr {
    std::mem::replace(e, Expr::Invalid(Invalid { span: DUMMY_SP }))
}

fn binop_str(op: BinaryOp) -> &'static str {
    op.as_str()
}

fn assign_base_op(op: AssignOp) -> Option<&'static str> {
    Some(match op {
        AssignOp::AddAssign => "+",
        AssignOp::SubAssign => "-",
        AssignOp::MulAssign => "*",
        AssignOp::DivAssign => "/",
        AssignOp::ModAssign => "%",
        AssignOp::LShiftAssign => "<<",
        AssignOp::RShiftAssign => ">>",
        AssignOp::ZeroFillRShiftAssign => ">>>",
        AssignOp::BitOrAssign => "|",
        AssignOp::BitXorAssign => "^",
        AssignOp::BitAndAssign => "&",
        AssignOp::ExpAssign => "**",
        _ => return None,
    })
}

/// an expression that can be evaluated twice without side effects
fn is_simple(e: &Expr) -> bool {
    match e {
        Expr::Ident(_) | Expr::This(_) | Expr::Lit(_) => true,
        Expr::Member(m) => {
            is_simple(&m.obj)
                && match &m.prop {
                    MemberProp::Ident(_) => true,
                    MemberProp::Computed(c) => is_simple(&c.expr),
                    _ => false,
                }
        }
        Expr::Paren(p) => is_simple(&p.expr),
        _ => false,
    }
}

pub struct Instr;

impl Instr {
    fn cond(&mut self, test: &mut Box<Expr>) {
        let t = take(test);
        **test = call("truthy", vec![arg(t)]);
    }
}

impl VisitMut for Instr {
    fn visit_mut_if_stmt(&mut self, s: &mut IfStmt) {
        s.visit_mut_children_with(self);
        self.cond(&mut s.test);
    }
    fn visit_mut_while_stmt(&mut self, s: &mut WhileStmt) {
        s.visit_mut_children_with(self);
        self.cond(&mut s.test);
    }
    fn visit_mut_do_while_stmt(&mut self, s: &mut DoWhileStmt) {
        s.visit_mut_children_with(self);
        self.cond(&mut s.test);
    }
    fn visit_mut_for_stmt(&mut self, s: &mut ForStmt) {
        s.visit_mut_children_with(self);
        if let Some(t) = &mut s.test {
            self.cond(t);
        }
    }
    fn visit_mut_switch_stmt(&mut self, s: &mut SwitchStmt) {
        s.visit_mut_children_with(self);
        // switch ($S.sw(d, [c1, c2, ...])) : returns a concrete value === exactly the matching case (forking when d is symbolic)
        let cases: Vec<ExprOrSpread> = s.cases.iter().filter_map(|c| c.test.as_ref().map(|t| arg((**t).clone()))).collect();
        let d = take(&mut s.discriminant);
        *s.discriminant = call("sw", vec![arg(d), arg(array(cases))]);
    }

    fn visit_mut_expr(&mut self, e: &mut Expr) {
        // do not descend into the callee member of a call before deciding how to rewrite it
        match e {
            Expr::Call(c) => {
                // arguments first
                for a in c.args.iter_mut() {
                    a.expr.visit_mut_with(self);
                }
                match &mut c.callee {
                    Callee::Expr(callee) => {
                        match &mut **callee {
                            Expr::Member(m) if !matches!(&*m.obj, Expr::Ident(i) if &*i.sym == "$S") => {
                                m.obj.visit_mut_with(self);
                                let key = match &mut m.prop {
                                    MemberProp::Ident(i) => strlit(&i.sym),
                                    MemberProp::Computed(cp) => {
                                        cp.expr.visit_mut_with(self);
                                        take(&mut cp.expr)
                                    }
                                    MemberProp::PrivateName(_) => {
                                        return;
                                    }
                                };
                                if matches!(&*m.obj, Expr::SuperProp(_)) {
                                    return;
                                }
                                let obj = take(&mut m.obj);
                                let args = std::mem::take(&mut c.args);
                                *e = call("mcall", vec![arg(obj), arg(key), arg(array(args))]);
                            }
                            Expr::SuperProp(_) => {}
                            Expr::Ident(i) if &*i.sym == "$S" => {}
                            Expr::Member(_) => {}
                            other => {
                                other.visit_mut_with(self);
                                let f = take(other);
                                let args = std::mem::take(&mut c.args);
                                *e = call("call", vec![arg(f), arg(array(args))]);
                            }
                        }
                    }
                    _ => {}
                }
                return;
            }
            Expr::Unary(u) if u.op == UnaryOp::Delete => {
                // `delete o[k]` must keep its member operand: only the object and key expressions are instrumented
                if let Expr::Member(m) = &mut *u.arg {
                    m.obj.visit_mut_with(self);
                    if let MemberProp::Computed(cp) = &mut m.prop {
                        cp.expr.visit_mut_with(self);
                    }
                } else {
                    u.arg.visit_mut_with(self);
                }
                return;
            }
            Expr::OptChain(_) => {
                // left as is: symbolic values are proxies that refuse unknown property reads
                e.visit_mut_children_with(self);
                return;
            }
            Expr::Update(_) => {
                e.visit_mut_children_with(self);
                return;
            }
            Expr::Assign(a) => {
                a.right.visit_mut_with(self);
                // computed member store -> $S.set(obj, key, value) (typed arrays with symbolic cells, symbolic keys)
                if a.op == AssignOp::Assign {
                    if let AssignTarget::Simple(SimpleAssignTarget::Member(m)) = &mut a.left {
                        if let MemberProp::Computed(cp) = &mut m.prop {
                            if !matches!(&*m.obj, Expr::SuperProp(_)) {
                                m.obj.visit_mut_with(self);
                                cp.expr.visit_mut_with(self);
                                let obj = take(&mut m.obj);
                                let key = take(&mut cp.expr);
                                let val = take(&mut a.right);
                                *e = call("set", vec![arg(obj), arg(key), arg(val)]);
                                return;
                            }
                        }
                    }
                    a.left.visit_mut_with(self);
                    return;
                }
                if let Some(op) = assign_base_op(a.op) {
                    // x op= v  ->  x = $S.bin(op, x, v)   (only for targets that can be read twice)
                    let target_expr: Option<Expr> = match &a.left {
                        AssignTarget::Simple(SimpleAssignTarget::Ident(b)) => Some(Expr::Ident(b.id.clone())),
                        AssignTarget::Simple(SimpleAssignTarget::Member(m)) if is_simple(&Expr::Member(m.clone())) => Some(Expr::Member(m.clone())),
                        _ => None,
                    };
                    if let Some(mut read) = target_expr {
                        // a computed read on the right-hand side goes through $S.get
                        read.visit_mut_with(self);
                        let val = take(&mut a.right);
                        let newv = call("bin", vec![arg(strlit(op)), arg(read), arg(val)]);
                        if let AssignTarget::Simple(SimpleAssignTarget::Member(m)) = &mut a.left {
                            if let MemberProp::Computed(cp) = &mut m.prop {
                                let obj = take(&mut m.obj);
                                let key = take(&mut cp.expr);
                                *e = call("set", vec![arg(obj), arg(key), arg(newv)]);
                                return;
                            }
                        }
                        a.op = AssignOp::Assign;
                        a.right = Box::new(newv);
                        return;
                    }
                }
                a.left.visit_mut_with(self);
                return;
            }
            _ => {}
        }
        e.visit_mut_children_with(self);
        match e {
            Expr::Bin(b) => {
                let l = take(&mut b.left);
                let r = take(&mut b.right);
                *e = match b.op {
                    BinaryOp::LogicalAnd => call("and", vec![arg(l), arg(thunk(r))]),
                    BinaryOp::LogicalOr => call("or", vec![arg(l), arg(thunk(r))]),
                    BinaryOp::NullishCoalescing => call("nullish", vec![arg(l), arg(thunk(r))]),
                    op => call("bin", vec![arg(strlit(binop_str(op))), arg(l), arg(r)]),
                };
            }
            Expr::Unary(u) => {
                let op = u.op;
                match op {
                    UnaryOp::Delete => {}
                    UnaryOp::TypeOf if matches!(&*u.arg, Expr::Ident(_)) => {
                        let a = take(&mut u.arg);
                        *e = call("typeofIdent", vec![arg(thunk(a))]);
                    }
                    _ => {
                        let a = take(&mut u.arg);
                        *e = call("un", vec![arg(strlit(op.as_str())), arg(a)]);
                    }
                }
            }
            Expr::Cond(c) => {
                self.cond(&mut c.test);
            }
            Expr::Member(m) => {
                if let MemberProp::Computed(cp) = &mut m.prop {
                    if !matches!(&*m.obj, Expr::SuperProp(_)) {
                        let obj = take(&mut m.obj);
                        let key = take(&mut cp.expr);
                        *e = call("get", vec![arg(obj), arg(key)]);
                    }
                }
            }
            Expr::New(n) => {
                let ctor = take(&mut n.callee);
                let args = n.args.take().unwrap_or_default();
                *e = call("new", vec![arg(ctor), arg(array(args))]);
            }
            Expr::Tpl(t) => {
                if !t.exprs.is_empty() {
                    let quasis: Vec<ExprOrSpread> = t.quasis.iter().map(|q| arg(strlit(&q.cooked.as_ref().map(|c| c.to_string_lossy().to_string()).unwrap_or_default()))).collect();
                    let exprs: Vec<ExprOrSpread> = t.exprs.drain(..).map(|x| arg(*x)).collect();
                    *e = call("tpl", vec![arg(array(quasis)), arg(array(exprs))]);
                }
            }
            _ => {}
        }
    }

    // patterns with default values contain expressions; assignment targets are not expressions to rewrite
    fn visit_mut_assign_target(&mut self, t: &mut AssignTarget) {
        // only descend into the object / key expressions of member targets
        if let AssignTarget::Simple(SimpleAssignTarget::Member(m)) = t {
            m.obj.visit_mut_with(self);
            if let MemberProp::Computed(cp) = &mut m.prop {
                cp.expr.visit_mut_with(self);
            }
        }
    }
    fn visit_mut_for_in_stmt(&mut self, s: &mut ForInStmt) {
        s.right.visit_mut_with(self);
        s.body.visit_mut_with(self);
    }
    fn visit_mut_for_of_stmt(&mut self, s: &mut ForOfStmt) {
        s.right.visit_mut_with(self);
        s.body.visit_mut_with(self);
    }
}

pub fn instrument(m: &mut Module) {
    m.visit_mut_with(&mut Instr);
    // import { $S } from "./S.mjs";
    let imp = ModuleItem::ModuleDecl(ModuleDecl::Import(ImportDecl {
        span: DUMMY_SP,
        specifiers: vec![ImportSpecifier::Named(ImportNamedSpecifier { span: DUMMY_SP, local: ident("$S"), imported: None, is_type_only: false })],
        src: Box::new(Str { span: DUMMY_SP, value: "./S.mjs".into(), raw: None }),
        type_only: false,
        with: None,
        phase: Default::default(),
    }));
    m.body.insert(0, imp);
}
