//! tsx — TypeScript -> JavaScript for the beff client runtime, built on the compiler's own swc crates.
//!   tsx strip <file.ts>        type stripping only (what the concrete replays load)
//!   tsx instrument <file.ts>   stripping + rewriting of operators/branches/calls into `$S` hooks (dynamic symbolic execution)
//! Relative import specifiers `./x.js` are rewritten to `./x.mjs`; imports that are only used as types are elided.
use std::collections::HashSet;

use swc_common::{sync::Lrc, FileName, Globals, SourceMap, DUMMY_SP, GLOBALS};
use swc_ecma_ast::*;
use swc_ecma_codegen::{text_writer::JsWriter, Config, Emitter};
use swc_ecma_parser::{parse_file_as_module, Syntax, TsSyntax};
use swc_ecma_visit::{Visit, VisitMut, VisitMutWith, VisitWith};

mod instr;

struct Strip;

impl VisitMut for Strip {
    fn visit_mut_module_items(&mut self, items: &mut Vec<ModuleItem>) {
        items.retain(|it| match it {
            ModuleItem::Stmt(Stmt::Decl(Decl::TsInterface(_) | Decl::TsTypeAlias(_))) => false,
            ModuleItem::ModuleDecl(ModuleDecl::ExportDecl(ExportDecl { decl: Decl::TsInterface(_) | Decl::TsTypeAlias(_), .. })) => false,
            ModuleItem::ModuleDecl(ModuleDecl::Import(i)) => !i.type_only,
            ModuleItem::ModuleDecl(ModuleDecl::ExportNamed(e)) => !e.type_only,
            _ => true,
        });
        for it in items.iter_mut() {
            if let ModuleItem::ModuleDecl(ModuleDecl::Import(i)) = it {
                i.specifiers.retain(|s| match s {
                    ImportSpecifier::Named(n) => !n.is_type_only,
                    _ => true,
                });
            }
            if let ModuleItem::ModuleDecl(ModuleDecl::ExportNamed(e)) = it {
                e.specifiers.retain(|s| match s {
                    ExportSpecifier::Named(n) => !n.is_type_only,
                    _ => true,
                });
            }
        }
        items.visit_mut_children_with(self);
    }
    fn visit_mut_stmts(&mut self, items: &mut Vec<Stmt>) {
        items.retain(|it| !matches!(it, Stmt::Decl(Decl::TsInterface(_) | Decl::TsTypeAlias(_))));
        items.visit_mut_children_with(self);
    }
    fn visit_mut_binding_ident(&mut self, b: &mut BindingIdent) {
        b.type_ann = None;
        b.id.optional = false;
    }
    fn visit_mut_array_pat(&mut self, p: &mut ArrayPat) {
        p.type_ann = None;
        p.optional = false;
        p.visit_mut_children_with(self);
    }
    fn visit_mut_object_pat(&mut self, p: &mut ObjectPat) {
        p.type_ann = None;
        p.optional = false;
        p.visit_mut_children_with(self);
    }
    fn visit_mut_rest_pat(&mut self, p: &mut RestPat) {
        p.type_ann = None;
        p.visit_mut_children_with(self);
    }
    fn visit_mut_function(&mut self, f: &mut Function) {
        f.return_type = None;
        f.type_params = None;
        // `this` parameter
        f.params.retain(|p| !matches!(&p.pat, Pat::Ident(b) if &*b.id.sym == "this"));
        f.visit_mut_children_with(self);
    }
    fn visit_mut_arrow_expr(&mut self, f: &mut ArrowExpr) {
        f.return_type = None;
        f.type_params = None;
        f.visit_mut_children_with(self);
    }
    fn visit_mut_expr(&mut self, e: &mut Expr) {
        e.visit_mut_children_with(self);
        let inner = match e {
            Expr::TsAs(x) => Some(x.expr.clone()),
            Expr::TsNonNull(x) => Some(x.expr.clone()),
            Expr::TsSatisfies(x) => Some(x.expr.clone()),
            Expr::TsConstAssertion(x) => Some(x.expr.clone()),
            Expr::TsTypeAssertion(x) => Some(x.expr.clone()),
            Expr::TsInstantiation(x) => Some(x.expr.clone()),
            _ => None,
        };
        if let Some(i) = inner {
            *e = *i;
        }
    }
    fn visit_mut_simple_assign_target(&mut self, t: &mut SimpleAssignTarget) {
        t.visit_mut_children_with(self);
        loop {
            let inner: Option<Box<Expr>> = match t {
                SimpleAssignTarget::TsAs(x) => Some(x.expr.clone()),
                SimpleAssignTarget::TsNonNull(x) => Some(x.expr.clone()),
                SimpleAssignTarget::TsSatisfies(x) => Some(x.expr.clone()),
                SimpleAssignTarget::TsTypeAssertion(x) => Some(x.expr.clone()),
                _ => None,
            };
            match inner {
                Some(e) => match *e {
                    Expr::Ident(i) => {
                        *t = SimpleAssignTarget::Ident(i.into());
                    }
                    Expr::Member(m) => {
                        *t = SimpleAssignTarget::Member(m);
                    }
                    other => {
                        *t = SimpleAssignTarget::Paren(ParenExpr { span: DUMMY_SP, expr: Box::new(other) });
                        break;
                    }
                },
                None => break,
            }
        }
    }
    fn visit_mut_class_prop(&mut self, p: &mut ClassProp) {
        p.type_ann = None;
        p.accessibility = None;
        p.readonly = false;
        p.is_optional = false;
        p.definite = false;
        p.is_override = false;
        p.visit_mut_children_with(self);
    }
    fn visit_mut_private_prop(&mut self, p: &mut PrivateProp) {
        p.type_ann = None;
        p.accessibility = None;
        p.readonly = false;
        p.is_optional = false;
        p.definite = false;
        p.visit_mut_children_with(self);
    }
    fn visit_mut_class_method(&mut self, m: &mut ClassMethod) {
        m.accessibility = None;
        m.is_abstract = false;
        m.is_override = false;
        m.is_optional = false;
        m.visit_mut_children_with(self);
    }
    fn visit_mut_constructor(&mut self, c: &mut Constructor) {
        c.accessibility = None;
        // parameter properties -> plain parameters + assignments
        let mut assigns: Vec<Stmt> = vec![];
        let mut params = vec![];
        for p in c.params.drain(..) {
            match p {
                ParamOrTsParamProp::Param(p) => params.push(ParamOrTsParamProp::Param(p)),
                ParamOrTsParamProp::TsParamProp(tp) => {
                    let (pat, name) = match tp.param {
                        TsParamPropParam::Ident(b) => (Pat::Ident(b.clone()), b.id.clone()),
                        TsParamPropParam::Assign(a) => {
                            let name = match &*a.left {
                                Pat::Ident(b) => b.id.clone(),
                                _ => panic!("unsupported parameter property"),
                            };
                            (Pat::Assign(a), name)
                        }
                    };
                    params.push(ParamOrTsParamProp::Param(Param { span: DUMMY_SP, decorators: vec![], pat }));
                    assigns.push(Stmt::Expr(ExprStmt {
                        span: DUMMY_SP,
                        expr: Box::new(Expr::Assign(AssignExpr {
                            span: DUMMY_SP,
                            op: AssignOp::Assign,
                            left: AssignTarget::Simple(SimpleAssignTarget::Member(MemberExpr {
                                span: DUMMY_SP,
                                obj: Box::new(Expr::This(ThisExpr { span: DUMMY_SP })),
                                prop: MemberProp::Ident(IdentName { span: DUMMY_SP, sym: name.sym.clone() }),
                            })),
                            right: Box::new(Expr::Ident(name)),
                        })),
                    }));
                }
            }
        }
        c.params = params;
        if !assigns.is_empty() {
            if let Some(body) = &mut c.body {
                // after a leading super(...) call if there is one
                let pos = body.stmts.iter().position(|s| matches!(s, Stmt::Expr(ExprStmt { expr, .. }) if matches!(&**expr, Expr::Call(CallExpr { callee: Callee::Super(_), .. })))).map(|p| p + 1).unwrap_or(0);
                for (k, a) in assigns.into_iter().enumerate() {
                    body.stmts.insert(pos + k, a);
                }
            }
        }
        c.visit_mut_children_with(self);
    }
    fn visit_mut_class(&mut self, c: &mut Class) {
        c.is_abstract = false;
        c.implements.clear();
        c.type_params = None;
        c.super_type_params = None;
        c.body.retain(|m| match m {
            ClassMember::Method(m) => m.function.body.is_some(),
            ClassMember::PrivateMethod(m) => m.function.body.is_some(),
            ClassMember::Constructor(k) => k.body.is_some(),
            ClassMember::TsIndexSignature(_) => false,
            ClassMember::ClassProp(p) => !p.declare && !p.is_abstract,
            _ => true,
        });
        c.visit_mut_children_with(self);
    }
    fn visit_mut_call_expr(&mut self, c: &mut CallExpr) {
        c.type_args = None;
        c.visit_mut_children_with(self);
    }
    fn visit_mut_new_expr(&mut self, c: &mut NewExpr) {
        c.type_args = None;
        c.visit_mut_children_with(self);
    }
    fn visit_mut_tagged_tpl(&mut self, c: &mut TaggedTpl) {
        c.type_params = None;
        c.visit_mut_children_with(self);
    }
    fn visit_mut_var_declarator(&mut self, d: &mut VarDeclarator) {
        d.definite = false;
        d.visit_mut_children_with(self);
    }
    fn visit_mut_catch_clause(&mut self, c: &mut CatchClause) {
        c.visit_mut_children_with(self);
    }
}

/// identifiers referenced anywhere outside import declarations (after stripping these are value uses)
struct Uses(HashSet<String>);
impl Visit for Uses {
    fn visit_import_decl(&mut self, _: &ImportDecl) {}
    fn visit_ident(&mut self, i: &Ident) {
        self.0.insert(i.sym.to_string());
    }
}

fn fix_imports(m: &mut Module) {
    let mut u = Uses(HashSet::new());
    m.visit_with(&mut u);
    for it in m.body.iter_mut() {
        let src: Option<&mut Box<Str>> = match it {
            ModuleItem::ModuleDecl(ModuleDecl::Import(i)) => {
                i.specifiers.retain(|s| match s {
                    ImportSpecifier::Named(n) => u.0.contains(&*n.local.sym.to_string()),
                    ImportSpecifier::Default(n) => u.0.contains(&*n.local.sym.to_string()),
                    ImportSpecifier::Namespace(n) => u.0.contains(&*n.local.sym.to_string()),
                });
                Some(&mut i.src)
            }
            ModuleItem::ModuleDecl(ModuleDecl::ExportNamed(NamedExport { src: Some(s), .. })) => Some(s),
            ModuleItem::ModuleDecl(ModuleDecl::ExportAll(e)) => Some(&mut e.src),
            _ => None,
        };
        if let Some(s) = src {
            let v = s.value.to_string_lossy().to_string();
            let nv = if v == "zod" {
                "./zod-stub.mjs".to_string()
            } else if v.starts_with("./") && v.ends_with(".js") {
                format!("{}.mjs", &v[..v.len() - 3])
            } else {
                v.clone()
            };
            if nv != v {
                **s = Str { span: DUMMY_SP, value: nv.into(), raw: None };
            }
        }
    }
    m.body.retain(|it| match it {
        ModuleItem::ModuleDecl(ModuleDecl::Import(i)) => !i.specifiers.is_empty(),
        ModuleItem::ModuleDecl(ModuleDecl::ExportNamed(NamedExport { src: Some(_), specifiers, .. })) => !specifiers.is_empty(),
        _ => true,
    });
}

fn main() {
    let args: Vec<String> = std::env::args().collect();
    let mode = args.get(1).map(|s| s.as_str()).unwrap_or("strip").to_string();
    let path = args.get(2).expect("file").clone();
    let src = std::fs::read_to_string(&path).expect("read");
    GLOBALS.set(&Globals::new(), || {
        let cm: Lrc<SourceMap> = Default::default();
        let fm = cm.new_source_file(FileName::Custom(path.clone()).into(), src);
        let mut errs = vec![];
        let syntax = if path.ends_with(".ts") { Syntax::Typescript(TsSyntax::default()) } else { Syntax::Es(Default::default()) };
        let mut m = match parse_file_as_module(&fm, syntax, EsVersion::latest(), None, &mut errs) {
            Ok(m) => m,
            Err(e) => {
                eprintln!("parse error: {:?}", e);
                std::process::exit(3);
            }
        };
        m.visit_mut_with(&mut Strip);
        fix_imports(&mut m);
        if mode == "instrument" {
            instr::instrument(&mut m);
        }
        let mut buf = vec![];
        {
            let mut em = Emitter { cfg: Config::default(), cm: cm.clone(), comments: None, wr: JsWriter::new(cm.clone(), "\n", &mut buf, None) };
            em.emit_module(&m).expect("emit");
        }
        print!("{}", String::from_utf8(buf).unwrap());
    });
}
