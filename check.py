#!/usr/bin/env python3
"""entry point of every registered check:  python3-vt /verif/check.py <ID> --tier quick|thorough
exit 0: no counterexample within the stated bounds and every obligation decided
exit 1: VIOLATION (solver counterexample, replayed against the real code, not a listed known finding)
exit 2: inconclusive (unmodelled construct, solver unknown/timeout, bound hit, build failure) - never a pass"""
import sys, os, argparse, importlib, traceback
sys.path.insert(0, os.path.dirname(os.path.abspath(__file__)))
from lib.common import Inconclusive


def main():
    ap = argparse.ArgumentParser()
    ap.add_argument('pid')
    ap.add_argument('--tier', default=os.environ.get('VERIF_TIER', 'quick'), choices=['quick', 'thorough'])
    ap.add_argument('--replay', default=None)
    a = ap.parse_args()
    mod = importlib.import_module('checks.' + a.pid.lower())
    try:
        if a.replay:
            rc = mod.replay(a.replay)
        else:
            rc = mod.main(a.tier)
    except Inconclusive as e:
        print(f'INCONCLUSIVE property={a.pid}: {e}')
        rc = 2
    except Exception:
        traceback.print_exc()
        print(f'INCONCLUSIVE property={a.pid}: internal error of the checker')
        rc = 2
    sys.exit(rc)


if __name__ == '__main__':
    main()
