//! native replays for the literal-set layer (properop) and the SemType merge layer (semop) of C06
use std::rc::Rc;

use beff_core::ast::json::N;
use beff_core::ast::runtype::{TplLitType, TplLitTypeItem, TypedArrayKind};
use beff_core::subtyping::bdd::{Atom, Bdd};
use beff_core::subtyping::semtype::{SemType, SemTypeOps};
use beff_core::subtyping::subtype::{
    NumberRepresentationOrFormat, ProperSubtype, ProperSubtypeOps, StringLitOrFormat, SubType, SubTypeTag, VoidUndefinedSubtype,
};
use serde_json::{Value, json};

use crate::bddj;

const TAK: [TypedArrayKind; 11] = [
    TypedArrayKind::Uint8Array, TypedArrayKind::Uint8ClampedArray, TypedArrayKind::Uint16Array, TypedArrayKind::Uint32Array,
    TypedArrayKind::Int8Array, TypedArrayKind::Int16Array, TypedArrayKind::Int32Array, TypedArrayKind::Float32Array,
    TypedArrayKind::Float64Array, TypedArrayKind::BigInt64Array, TypedArrayKind::BigUint64Array,
];

fn num(v: &Value) -> NumberRepresentationOrFormat {
    let a = v.as_array().unwrap();
    let i = a[0].as_i64().unwrap();
    if a.len() > 1 {
        // fractional literals cannot be built exactly through the public API; approximate (replay may not reproduce)
        NumberRepresentationOrFormat::Lit(N::parse_f64(i as f64 + a[1].as_i64().unwrap() as f64 / 1_000_000_000.0))
    } else {
        NumberRepresentationOrFormat::Lit(N::parse_int(i))
    }
}
fn strv(v: &Value) -> StringLitOrFormat {
    let id = v.as_array().unwrap()[0].as_u64().unwrap();
    StringLitOrFormat::Tpl(TplLitType(vec![TplLitTypeItem::StringConst(format!("s{:05}", id))]))
}

pub fn proper_of(v: &Value) -> Rc<ProperSubtype> {
    let tag = v["tag"].as_str().unwrap();
    let allowed = v["allowed"].as_bool().unwrap_or(true);
    let empty = vec![];
    let vals = v["values"].as_array().unwrap_or(&empty);
    Rc::new(match tag {
        "Boolean" => ProperSubtype::Boolean(v["value"].as_bool().unwrap()),
        "Number" => ProperSubtype::Number { allowed, values: vals.iter().map(num).collect() },
        "String" => ProperSubtype::String { allowed, values: vals.iter().map(strv).collect() },
        "TypedArray" => ProperSubtype::TypedArray { allowed, values: vals.iter().map(|x| TAK[x.as_array().unwrap()[0].as_u64().unwrap() as usize]).collect() },
        "VoidUndefined" => ProperSubtype::VoidUndefined {
            allowed,
            values: vals.iter().map(|x| if x.as_array().unwrap()[0].as_u64().unwrap() == 0 { VoidUndefinedSubtype::Void } else { VoidUndefinedSubtype::Undefined }).collect(),
        },
        "Mapping" => ProperSubtype::Mapping(bddj::bdd_of(&v["bdd"], "Mapping")),
        "List" => ProperSubtype::List(bddj::bdd_of(&v["bdd"], "List")),
        "Map" => ProperSubtype::Map(bddj::bdd_of(&v["bdd"], "Map")),
        "Set" => ProperSubtype::Set(bddj::bdd_of(&v["bdd"], "Set")),
        _ => panic!("tag"),
    })
}

/// membership of a probe in a proper subtype. probe: for literal tags the literal (same JSON shape as a list element),
/// for Boolean a bool, for BDD tags a truth assignment (u32 bit mask over atom indices)
pub fn proper_has(p: &ProperSubtype, probe: &Value) -> bool {
    match p {
        ProperSubtype::Boolean(b) => *b == probe.as_bool().unwrap(),
        ProperSubtype::Number { allowed, values } => values.contains(&num(probe)) == *allowed,
        ProperSubtype::String { allowed, values } => values.contains(&strv(probe)) == *allowed,
        ProperSubtype::TypedArray { allowed, values } => values.contains(&TAK[probe.as_array().unwrap()[0].as_u64().unwrap() as usize]) == *allowed,
        ProperSubtype::VoidUndefined { allowed, values } => {
            let k = if probe.as_array().unwrap()[0].as_u64().unwrap() == 0 { VoidUndefinedSubtype::Void } else { VoidUndefinedSubtype::Undefined };
            values.contains(&k) == *allowed
        }
        ProperSubtype::Mapping(b) | ProperSubtype::List(b) | ProperSubtype::Map(b) | ProperSubtype::Set(b) => bddj::eval(b, probe.as_u64().unwrap() as u32),
    }
}

fn tag_name(t: &SubTypeTag) -> String {
    format!("{:?}", t)
}

pub fn subtype_has(s: &SubType, probe: &Value) -> (bool, String) {
    match s {
        SubType::True(t) => (true, format!("True({})", tag_name(t))),
        SubType::False(t) => (false, format!("False({})", tag_name(t))),
        SubType::Proper(p) => (proper_has(p, probe), format!("{:?}", p)),
    }
}

/// {op, a, b?, probe}
pub fn properop(inp: &Value) -> Value {
    let r = std::panic::catch_unwind(|| {
        let a = proper_of(&inp["a"]);
        let probe = &inp["probe"];
        let op = inp["op"].as_str().unwrap();
        let ma = proper_has(&a, probe);
        if op == "complement" {
            let r = a.complement();
            return json!({"got": proper_has(&r, probe), "expected": !ma, "result": format!("{:?}", r)});
        }
        let b = proper_of(&inp["b"]);
        let mb = proper_has(&b, probe);
        let (res, exp) = match op {
            "union" => (a.union(&b), ma || mb),
            "intersect" => (a.intersect(&b), ma && mb),
            _ => (a.diff(&b), ma && !mb),
        };
        match res {
            Ok(s) => {
                let (got, d) = subtype_has(&s, probe);
                let wrong_kind = match (&*s, op) {
                    (SubType::True(_), "intersect") | (SubType::True(_), "diff") | (SubType::False(_), "union") => true,
                    _ => false,
                };
                json!({"got": got, "expected": exp, "result": d, "wrong_kind": wrong_kind})
            }
            Err(e) => json!({"error": format!("{e}")}),
        }
    });
    r.unwrap_or_else(|_| json!({"panic": true}))
}

// ---- SemType merge layer
const CODES: [(u32, &str); 13] = [
    (1 << 1, "Boolean"), (1 << 2, "Number"), (1 << 3, "String"), (1 << 4, "Null"), (1 << 5, "Mapping"), (1 << 6, "OptionalProp"),
    (1 << 7, "List"), (1 << 8, "BigInt"), (1 << 9, "Date"), (1 << 10, "VoidUndefined"), (1 << 11, "TypedArray"), (1 << 12, "Map"), (1 << 13, "Set"),
];

/// concrete proper subtype of the tag `code` such that the canonical probe of that tag is a member iff `member`
/// canonical probes: Boolean true; Number 1; String s00001; TypedArray kind 1; VoidUndefined Undefined(1); BDD tags: assignment 0b01
/// `variant` picks between two realisations so that two operands do not carry structurally equal entries by accident
fn realise(code: u32, member: bool, variant: u64) -> Rc<ProperSubtype> {
    let name = CODES.iter().find(|c| c.0 == code).map(|c| c.1).unwrap_or("?");
    let lit = |m: bool| if m { json!([[1]]) } else { json!([[2 + variant]]) };
    let v = match name {
        "Boolean" => json!({"tag": "Boolean", "value": member}),
        "Number" | "String" | "TypedArray" => json!({"tag": name, "allowed": true, "values": lit(member)}),
        "VoidUndefined" => json!({"tag": name, "allowed": true, "values": if member { json!([[1]]) } else { json!([[0]]) }}),
        _ => {
            // atom 0 is true, atom 1 is false under the canonical assignment 0b01
            let at = if member { 0 } else { 1 };
            let bdd = if variant == 0 { json!({"a": at, "l": "T", "m": "F", "r": "F"}) } else { json!({"a": at, "l": "T", "m": "F", "r": {"a": 2, "l": {"a": at, "l": "T", "m": "F", "r": "F"}, "m": "F", "r": "F"}}) };
            json!({"tag": name, "bdd": bdd})
        }
    };
    proper_of(&v)
}

fn canonical_probe(code: u32) -> Value {
    let name = CODES.iter().find(|c| c.0 == code).map(|c| c.1).unwrap_or("?");
    match name {
        "Boolean" => json!(true),
        "Number" | "String" | "TypedArray" | "VoidUndefined" => json!([1]),
        _ => json!(1),
    }
}

fn semtype_of(v: &Value, variant: u64) -> Rc<SemType> {
    let all = v["all"].as_u64().unwrap() as u32;
    let ents: Vec<Rc<ProperSubtype>> = v["entries"].as_array().unwrap().iter()
        .map(|e| realise(e["code"].as_u64().unwrap() as u32, e["member"].as_bool().unwrap(), variant)).collect();
    Rc::new(SemType::new_complex(all, ents))
}

fn sem_has(t: &SemType, code: u32, probe: &Value) -> bool {
    if t.all & code != 0 {
        return true;
    }
    for e in t.subtype_data.iter() {
        if e.to_code() == code && proper_has(e, probe) {
            return true;
        }
    }
    false
}

fn invariant_ok(t: &SemType) -> bool {
    let mut prev = 0u32;
    for e in t.subtype_data.iter() {
        let c = e.to_code();
        if c <= prev || (c & t.all) != 0 {
            return false;
        }
        prev = c;
    }
    true
}

/// {op, x:{all,entries:[{code,member}]}, y?, probe_tag}
pub fn semop(inp: &Value) -> Value {
    let r = std::panic::catch_unwind(|| {
        let code = inp["probe_tag"].as_u64().unwrap() as u32;
        let probe = canonical_probe(code);
        let x = semtype_of(&inp["x"], 0);
        let mx = sem_has(&x, code, &probe);
        let op = inp["op"].as_str().unwrap();
        let (res, exp) = if op == "complement" {
            (x.complement(), !mx)
        } else {
            let y = semtype_of(&inp["y"], 1);
            let my = sem_has(&y, code, &probe);
            match op {
                "union" => (x.union(&y), mx || my),
                "intersect" => (x.intersect(&y), mx && my),
                _ => (x.diff(&y), mx && !my),
            }
        };
        match res {
            Ok(t) => json!({"got": sem_has(&t, code, &probe), "expected": exp, "invariant_ok": invariant_ok(&t), "result": format!("{:?}", t)}),
            Err(e) => json!({"error": format!("{e}")}),
        }
    });
    r.unwrap_or_else(|_| json!({"panic": true}))
}

pub fn _keep(_: Atom, _: Bdd) {}
