//! beffdrv — native driver: runs the real beff-core functions on concrete inputs given as JSON.
//! Used for (a) replaying solver counterexamples against the real build, (b) the concrete side of the
//! translation-validation checks.  Only the public API of beff-core is used.
use std::io::Read;
use std::rc::Rc;

use beff_core::subtyping::bdd::{Atom, Bdd, BddOps};
use serde_json::{Value, json};

mod bddj;
mod compile;
mod subj;
mod semj;

thread_local! {
    static LAST_PANIC: std::cell::RefCell<String> = std::cell::RefCell::new(String::new());
}
pub fn last_panic() -> String {
    LAST_PANIC.with(|p| p.borrow().clone())
}

fn main() {
    std::panic::set_hook(Box::new(|info| {
        let loc = info.location().map(|l| format!("{}:{}", l.file(), l.line())).unwrap_or_default();
        let msg = if let Some(s) = info.payload().downcast_ref::<&str>() { s.to_string() } else if let Some(s) = info.payload().downcast_ref::<String>() { s.clone() } else { "?".to_string() };
        LAST_PANIC.with(|p| *p.borrow_mut() = format!("{} @ {}", msg, loc));
    }));
    let args: Vec<String> = std::env::args().collect();
    let cmd = args.get(1).map(|s| s.as_str()).unwrap_or("");
    let mut input = String::new();
    std::io::stdin().read_to_string(&mut input).expect("stdin");
    let out = match cmd {
        "compile" => compile::compile(&serde_json::from_str(&input).expect("json")),
        "subtype" => subj::subtype(&serde_json::from_str(&input).expect("json")),
        "bddop" => bddj::bddop(&serde_json::from_str(&input).expect("json")),
        "properop" => semj::properop(&serde_json::from_str(&input).expect("json")),
        "semop" => semj::semop(&serde_json::from_str(&input).expect("json")),
        _ => json!({"error": format!("unknown command {cmd}")}),
    };
    println!("{}", serde_json::to_string(&out).unwrap());
}

pub fn _unused(_: Rc<Bdd>, _: Atom) {
    let _ = Bdd::True;
    let _x: Option<&dyn BddOps> = None;
    let _ = Value::Null;
}
