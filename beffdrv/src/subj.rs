//! `subtype`: decide assignability for pairs of named types of a project with the real engine
//! (to_sem_type + is_subtype / is_same_type in one fresh SemTypeContext per pair, as convert_conditional_type does).
use std::rc::Rc;

use beff_core::ast::runtype::Runtype;
use beff_core::subtyping::ToSemType;
use beff_core::subtyping::semtype::{SemTypeContext, SemTypeOps};
use beff_core::{BffFileName, EntryPoints, NamedSchema, RuntypeName};
use serde_json::{Value, json};

use crate::compile::{parse_project, settings};

pub fn find<'a>(vals: &'a [NamedSchema], name: &str) -> Option<&'a NamedSchema> {
    vals.iter().find(|v| match &v.name.ty {
        RuntypeName::Address(a) => a.name == name && v.name.type_arguments.is_empty(),
        _ => false,
    })
}

pub fn subtype(inp: &Value) -> Value {
    let extracted = std::panic::catch_unwind(|| {
        let mut fm = parse_project(inp)?;
        let entry = EntryPoints { parser_entry_point: BffFileName::new(inp["entry"].as_str().unwrap_or("entry.ts").to_string()), settings: settings(inp) };
        let p = beff_core::extract(&mut fm, entry);
        if !p.errors.is_empty() {
            return Err(format!("diagnostics: {:?}", p.errors.iter().map(|e| format!("{:?}", e.message)).collect::<Vec<_>>()));
        }
        Ok(p.validators)
    });
    let vals = match extracted {
        Ok(Ok(v)) => v,
        Ok(Err(e)) => return json!({"error": e}),
        Err(_) => return json!({"panic": crate::last_panic()}),
    };
    let refs: Vec<&NamedSchema> = vals.iter().collect();
    let by_ref = inp["by_ref"].as_bool().unwrap_or(true);
    let mut out = vec![];
    for pair in inp["pairs"].as_array().unwrap() {
        let (an, bn) = (pair[0].as_str().unwrap(), pair[1].as_str().unwrap());
        let (a, b) = match (find(&vals, an), find(&vals, bn)) {
            (Some(a), Some(b)) => (a, b),
            _ => {
                out.push(json!({"error": "type not found"}));
                continue;
            }
        };
        let (ra, rb) = if by_ref { (Runtype::ref_(a.name.clone()), Runtype::ref_(b.name.clone())) } else { (a.schema.clone(), b.schema.clone()) };
        let t0 = std::time::Instant::now();
        let r = std::panic::catch_unwind(std::panic::AssertUnwindSafe(|| -> Result<(bool, bool, bool, bool, bool), String> {
            let mut ctx = SemTypeContext::new();
            let sa = ra.to_sem_type(&refs, &mut ctx).map_err(|e| e.to_string())?;
            let sb = rb.to_sem_type(&refs, &mut ctx).map_err(|e| e.to_string())?;
            let sub = sa.is_subtype(&sb, &mut ctx).map_err(|e| e.to_string())?;
            let sup = sb.is_subtype(&sa, &mut ctx).map_err(|e| e.to_string())?;
            let same = sa.is_same_type(&sb, &mut ctx).map_err(|e| e.to_string())?;
            let ea = sa.is_empty(&mut ctx).map_err(|e| e.to_string())?;
            let eb = sb.is_empty(&mut ctx).map_err(|e| e.to_string())?;
            let _ = Rc::strong_count(&sa);
            Ok((sub, sup, same, ea, eb))
        }));
        let ms = t0.elapsed().as_millis() as u64;
        out.push(match r {
            Ok(Ok((sub, sup, same, ea, eb))) => json!({"sub": sub, "sup": sup, "same": same, "empty_a": ea, "empty_b": eb, "ms": ms}),
            Ok(Err(e)) => json!({"error": e, "ms": ms}),
            Err(_) => json!({"panic": crate::last_panic(), "ms": ms}),
        });
    }
    json!({"results": out})
}
