use std::rc::Rc;

use beff_core::subtyping::bdd::{Atom, Bdd, BddOps};
use beff_core::subtyping::dnf::{Conjunction, bdd_to_dnf, dnf_to_bdd};
use serde_json::{Value, json};

pub fn atom_of(kind: &str, i: usize) -> Atom {
    match kind {
        "Mapping" => Atom::Mapping(i),
        "Map" => Atom::Map(i),
        "Set" => Atom::Set(i),
        _ => Atom::List(i),
    }
}

pub fn bdd_of(v: &Value, kind: &str) -> Rc<Bdd> {
    match v {
        Value::String(s) if s == "T" => Rc::new(Bdd::True),
        Value::String(_) => Rc::new(Bdd::False),
        _ => Rc::new(Bdd::Node {
            atom: atom_of(kind, v["a"].as_u64().unwrap() as usize),
            left: bdd_of(&v["l"], kind),
            middle: bdd_of(&v["m"], kind),
            right: bdd_of(&v["r"], kind),
        }),
    }
}

pub fn atom_idx(a: &Atom) -> usize {
    match a {
        Atom::Mapping(i) | Atom::List(i) | Atom::Map(i) | Atom::Set(i) => *i,
    }
}

pub fn eval(b: &Bdd, asg: u32) -> bool {
    match b {
        Bdd::True => true,
        Bdd::False => false,
        Bdd::Node { atom, left, middle, right } => {
            let a = (asg >> atom_idx(atom)) & 1 == 1;
            (a && eval(left, asg)) || eval(middle, asg) || (!a && eval(right, asg))
        }
    }
}

pub fn table(b: &Bdd, natoms: u32) -> u64 {
    let mut t = 0u64;
    for asg in 0..(1u32 << natoms) {
        if eval(b, asg) {
            t |= 1 << asg;
        }
    }
    t
}

pub fn to_json(b: &Bdd) -> Value {
    match b {
        Bdd::True => json!("T"),
        Bdd::False => json!("F"),
        Bdd::Node { atom, left, middle, right } => {
            json!({"a": atom_idx(atom), "l": to_json(left), "m": to_json(middle), "r": to_json(right)})
        }
    }
}

/// {op, kind?, natoms?, x, y?} or {op:"from_node", atom, l, m, r}; result: truth tables of operands and result
pub fn bddop(inp: &Value) -> Value {
    let kind = inp["kind"].as_str().unwrap_or("List");
    let n = inp["natoms"].as_u64().unwrap_or(4) as u32;
    let op = inp["op"].as_str().unwrap_or("");
    let r = std::panic::catch_unwind(|| match op {
        "from_node" => {
            let (l, m, r) = (bdd_of(&inp["l"], kind), bdd_of(&inp["m"], kind), bdd_of(&inp["r"], kind));
            let a = atom_of(kind, inp["atom"].as_u64().unwrap() as usize);
            let spec = Bdd::Node { atom: a, left: l.clone(), middle: m.clone(), right: if inp["alias_lr"].as_bool().unwrap_or(false) { l.clone() } else { r.clone() } };
            let res = if inp["alias_lr"].as_bool().unwrap_or(false) { Bdd::from_node(a, l.clone(), m, l) } else { Bdd::from_node(a, l, m, r) };
            json!({"result": to_json(&res), "tt_result": table(&res, n), "tt_expected": table(&spec, n)})
        }
        "complement" => {
            let x = bdd_of(&inp["x"], kind);
            let res = x.complement();
            let full = (1u128 << (1u32 << n)) - 1;
            json!({"result": to_json(&res), "tt_result": table(&res, n), "tt_expected": (!(table(&x, n) as u128) & full) as u64})
        }
        "dnf_roundtrip" => {
            let x = bdd_of(&inp["x"], kind);
            let d = bdd_to_dnf(&x);
            let back = dnf_to_bdd(&d);
            let mut tt_dnf = 0u64;
            for asg in 0..(1u32 << n) {
                let mut any = false;
                for c in d.iter() {
                    let pos = c.positive.iter().all(|a| (asg >> atom_idx(a)) & 1 == 1);
                    let neg = c.negative.iter().all(|a| (asg >> atom_idx(a)) & 1 == 0);
                    if pos && neg { any = true; }
                }
                if any { tt_dnf |= 1 << asg; }
            }
            let ok = tt_dnf == table(&x, n);
            json!({"result": to_json(&back), "tt_result": if ok { table(&back, n) } else { tt_dnf }, "tt_dnf": tt_dnf, "tt_expected": table(&x, n)})
        }
        "dnf_to_bdd" => {
            let mut d = vec![];
            let mut exp = 0u64;
            for c in inp["conjs"].as_array().unwrap() {
                let pos: Vec<Atom> = c["pos"].as_array().unwrap().iter().map(|a| atom_of(kind, a.as_u64().unwrap() as usize)).collect();
                let neg: Vec<Atom> = c["neg"].as_array().unwrap().iter().map(|a| atom_of(kind, a.as_u64().unwrap() as usize)).collect();
                for asg in 0..(1u32 << n) {
                    if pos.iter().all(|a| (asg >> atom_idx(a)) & 1 == 1) && neg.iter().all(|a| (asg >> atom_idx(a)) & 1 == 0) {
                        exp |= 1 << asg;
                    }
                }
                d.push(Conjunction { positive: pos, negative: neg });
            }
            let res = dnf_to_bdd(&d);
            json!({"result": to_json(&res), "tt_result": table(&res, n), "tt_expected": exp})
        }
        _ => {
            let x = bdd_of(&inp["x"], kind);
            let y = if inp["alias"].as_bool().unwrap_or(false) { x.clone() } else { bdd_of(&inp["y"], kind) };
            let (tx, ty) = (table(&x, n), table(&y, n));
            let (res, exp) = match op {
                "union" => (x.union(&y), tx | ty),
                "intersect" => (x.intersect(&y), tx & ty),
                _ => (x.diff(&y), tx & !ty),
            };
            json!({"result": to_json(&res), "tt_result": table(&res, n), "tt_expected": exp})
        }
    });
    match r {
        Ok(v) => v,
        Err(_) => json!({"panic": true}),
    }
}
