//! `compile`: run the real compiler front to back on a multi-file project given as JSON and return the diagnostics,
//! the Runtype IR of every validator (as JSON) and the emitted JS module; panics are caught and reported.
use std::collections::{BTreeMap, BTreeSet};
use std::rc::Rc;

use beff_core::ast::runtype::{Optionality, Runtype, RuntypeConst, RuntypeKind, TplLitType, TplLitTypeItem};
use beff_core::swc_tools::bind_exports::{FsModuleResolver, parse_and_bind};
use beff_core::{BeffUserSettings, BffFileName, EntryPoints, FileManager, ParsedModule, RuntypeUUID};
use serde_json::{Value, json};
use swc_common::{GLOBALS, Globals};

pub struct Fm {
    fs: BTreeMap<BffFileName, Rc<ParsedModule>>,
}

fn resolve(spec: &str) -> Option<BffFileName> {
    if !spec.starts_with("./") {
        return None;
    }
    let replaced = spec.replacen("./", "", 1);
    if replaced == "mock_could_not_resolve" {
        return None;
    }
    let name = if replaced.ends_with(".ts") || replaced.ends_with(".tsx") { replaced } else { format!("{}.ts", replaced) };
    Some(BffFileName::new(name))
}

impl FileManager for Fm {
    fn get_or_fetch_file(&mut self, name: &BffFileName) -> Option<Rc<ParsedModule>> {
        self.fs.get(name).cloned()
    }
    fn get_existing_file(&self, name: &BffFileName) -> Option<Rc<ParsedModule>> {
        self.fs.get(name).cloned()
    }
    fn resolve_import(&mut self, _c: BffFileName, spec: &str) -> Option<BffFileName> {
        resolve(spec)
    }
}
struct Res {}
impl FsModuleResolver for Res {
    fn resolve_import(&mut self, _c: BffFileName, spec: &str) -> Option<BffFileName> {
        resolve(spec)
    }
}

pub fn uuid_key(u: &RuntypeUUID) -> String {
    format!("{:?}", u)
}

fn tpl_item(i: &TplLitTypeItem) -> Value {
    match i {
        TplLitTypeItem::String => json!({"k": "string"}),
        TplLitTypeItem::Number => json!({"k": "number"}),
        TplLitTypeItem::Boolean => json!({"k": "boolean"}),
        TplLitTypeItem::StringConst(s) => json!({"k": "const", "v": s}),
        TplLitTypeItem::OneOf(xs) => json!({"k": "oneof", "items": xs.iter().map(tpl_item).collect::<Vec<_>>()}),
    }
}
pub fn tpl(t: &TplLitType) -> Value {
    Value::Array(t.0.iter().map(tpl_item).collect())
}

fn opt(o: &Optionality<Runtype>) -> Value {
    match o {
        Optionality::Optional(t) => json!({"optional": true, "t": runtype_json(t)}),
        Optionality::Required(t) => json!({"optional": false, "t": runtype_json(t)}),
    }
}

pub fn runtype_json(r: &Runtype) -> Value {
    match &r.kind {
        RuntypeKind::Null => json!({"k": "null"}),
        RuntypeKind::Undefined => json!({"k": "undefined"}),
        RuntypeKind::Void => json!({"k": "void"}),
        RuntypeKind::Boolean => json!({"k": "boolean"}),
        RuntypeKind::String => json!({"k": "string"}),
        RuntypeKind::Number => json!({"k": "number"}),
        RuntypeKind::Any => json!({"k": "any"}),
        RuntypeKind::AnyArrayLike => json!({"k": "anyarray"}),
        RuntypeKind::StringWithFormat(f) => json!({"k": "stringfmt", "name": f.0, "args": f.1}),
        RuntypeKind::NumberWithFormat(f) => json!({"k": "numberfmt", "name": f.0, "args": f.1}),
        RuntypeKind::TplLitType(t) => json!({"k": "tpl", "items": tpl(t), "regex": t.regex_expr()}),
        RuntypeKind::Object { vs, indexed_properties } => {
            let props: serde_json::Map<String, Value> = vs.iter().map(|(k, v)| (k.clone(), opt(v))).collect();
            let ip = match indexed_properties {
                Some(ip) => json!({"key": runtype_json(&ip.key), "value": opt(&ip.value)}),
                None => Value::Null,
            };
            json!({"k": "object", "props": props, "index": ip})
        }
        RuntypeKind::Array(t) => json!({"k": "array", "t": runtype_json(t)}),
        RuntypeKind::Tuple { prefix_items, items } => json!({
            "k": "tuple", "prefix": prefix_items.iter().map(runtype_json).collect::<Vec<_>>(),
            "rest": items.as_ref().map(|t| runtype_json(t)).unwrap_or(Value::Null)}),
        RuntypeKind::Ref(u) => json!({"k": "ref", "name": uuid_key(u)}),
        RuntypeKind::AnyOf(xs) => json!({"k": "anyof", "items": xs.iter().map(runtype_json).collect::<Vec<_>>()}),
        RuntypeKind::AllOf(xs) => json!({"k": "allof", "items": xs.iter().map(runtype_json).collect::<Vec<_>>()}),
        RuntypeKind::Const(c) => match c {
            RuntypeConst::Bool(b) => json!({"k": "const", "v": b}),
            RuntypeConst::Number(n) => json!({"k": "const", "v": n.to_serde()}),
        },
        RuntypeKind::Never => json!({"k": "never"}),
        RuntypeKind::StNot(t) => json!({"k": "not", "t": runtype_json(t)}),
        RuntypeKind::Function => json!({"k": "function"}),
        RuntypeKind::Date => json!({"k": "date"}),
        RuntypeKind::BigInt => json!({"k": "bigint"}),
        RuntypeKind::TypedArray(k) => json!({"k": "typedarray", "kind": k.js_name()}),
        RuntypeKind::Map(a, b) => json!({"k": "map", "key": runtype_json(a), "value": runtype_json(b)}),
        RuntypeKind::Set(a) => json!({"k": "set", "t": runtype_json(a)}),
    }
}

pub fn parse_project(inp: &Value) -> Result<Fm, String> {
    let mut fs = BTreeMap::new();
    for (name, content) in inp["files"].as_object().ok_or("files")?.iter() {
        let fname = BffFileName::new(name.clone());
        let mut r = Res {};
        let parsed = GLOBALS.set(&Globals::new(), || parse_and_bind(&mut r, &fname, content.as_str().unwrap_or("")));
        match parsed {
            Ok(p) => {
                fs.insert(fname, p);
            }
            Err(e) => return Err(format!("parse error in {}: {:?}", name, e)),
        }
    }
    Ok(Fm { fs })
}

pub fn settings(inp: &Value) -> BeffUserSettings {
    let get = |k: &str| -> BTreeSet<String> {
        inp[k].as_array().map(|a| a.iter().filter_map(|x| x.as_str().map(|s| s.to_string())).collect()).unwrap_or_default()
    };
    BeffUserSettings { string_formats: get("string_formats"), number_formats: get("number_formats") }
}

pub fn compile(inp: &Value) -> Value {
    let want_code = inp["emit"].as_bool().unwrap_or(true);
    let r = std::panic::catch_unwind(|| {
        let mut fm = match parse_project(inp) {
            Ok(f) => f,
            Err(e) => return json!({"parse_error": e}),
        };
        let entry = EntryPoints {
            parser_entry_point: BffFileName::new(inp["entry"].as_str().unwrap_or("entry.ts").to_string()),
            settings: settings(inp),
        };
        let p = beff_core::extract(&mut fm, entry);
        let errors: Vec<Value> = p.errors.iter().map(|e| json!({"message": format!("{:?}", e.message), "loc": format!("{:?}", e.loc)})).collect();
        let validators: Vec<Value> = p.validators.iter().map(|v| json!({"name": uuid_key(&v.name), "schema": runtype_json(&v.schema)})).collect();
        let decoders: Vec<Value> = p.built_decoders.as_ref().map(|ds| ds.iter().map(|d| json!({"name": d.exported_name, "schema": runtype_json(&d.schema)})).collect()).unwrap_or_default();
        let types = if p.errors.is_empty() { Some(p.debug_print()) } else { None };
        let mut out = json!({"errors": errors, "validators": validators, "decoders": decoders, "types": types});
        if want_code && p.errors.is_empty() {
            let code = std::panic::catch_unwind(std::panic::AssertUnwindSafe(|| p.emit_code()));
            match code {
                Ok(Ok(c)) => out["code"] = json!(c),
                Ok(Err(e)) => out["emit_error"] = json!(format!("{e}")),
                Err(_) => out["emit_panic"] = json!(crate::last_panic()),
            }
        }
        out
    });
    match r {
        Ok(v) => v,
        Err(_) => json!({"panic": crate::last_panic()}),
    }
}
