"""Equivalence of the expression DAG recorded by the $S runtime (real hash.ts, JS number semantics) with FIPS 180-4,
decided compositionally: every `>>> 0` / typed-array store of the implementation is a cut point; it is matched (by
concrete simulation signatures) with an intermediate value of the reference and the equality is PROVED by a small z3
query over the previous cut variables.  A cut point that cannot be proved stays an un-abstracted definition; the final
obligation (digest nibbles) is then decided monolithically, and a counterexample is searched under cube assumptions."""
import random, re, time
import z3

K = [0x428a2f98, 0x71374491, 0xb5c0fbcf, 0xe9b5dba5, 0x3956c25b, 0x59f111f1, 0x923f82a4, 0xab1c5ed5, 0xd807aa98, 0x12835b01, 0x243185be,
     0x550c7dc3, 0x72be5d74, 0x80deb1fe, 0x9bdc06a7, 0xc19bf174, 0xe49b69c1, 0xefbe4786, 0x0fc19dc6, 0x240ca1cc, 0x2de92c6f, 0x4a7484aa,
     0x5cb0a9dc, 0x76f988da, 0x983e5152, 0xa831c66d, 0xb00327c8, 0xbf597fc7, 0xc6e00bf3, 0xd5a79147, 0x06ca6351, 0x14292967, 0x27b70a85,
     0x2e1b2138, 0x4d2c6dfc, 0x53380d13, 0x650a7354, 0x766a0abb, 0x81c2c92e, 0x92722c85, 0xa2bfe8a1, 0xa81a664b, 0xc24b8b70, 0xc76c51a3,
     0xd192e819, 0xd6990624, 0xf40e3585, 0x106aa070, 0x19a4c116, 0x1e376c08, 0x2748774c, 0x34b0bcb5, 0x391c0cb3, 0x4ed8aa4a, 0x5b9cca4f,
     0x682e6ff3, 0x748f82ee, 0x78a5636f, 0x84c87814, 0x8cc70208, 0x90befffa, 0xa4506ceb, 0xbef9a3f7, 0xc67178f2]
H0 = [0x6a09e667, 0xbb67ae85, 0x3c6ef372, 0xa54ff53a, 0x510e527f, 0x9b05688c, 0x1f83d9ab, 0x5be0cd19]
M32 = 0xFFFFFFFF


# ------------------------------------------------------------------------------ reference (FIPS 180-4), generic in the word type
class ZOps:
    @staticmethod
    def rotr(x, n):
        return z3.RotateRight(x, n)

    @staticmethod
    def shr(x, n):
        return z3.LShR(x, n)

    @staticmethod
    def const(v):
        return z3.BitVecVal(v, 32)

    @staticmethod
    def from_bytes(b4):
        return z3.Concat(*b4)


class IOps:
    @staticmethod
    def rotr(x, n):
        return ((x >> n) | (x << (32 - n))) & M32

    @staticmethod
    def shr(x, n):
        return x >> n

    @staticmethod
    def const(v):
        return v

    @staticmethod
    def from_bytes(b4):
        return (b4[0] << 24) | (b4[1] << 16) | (b4[2] << 8) | b4[3]


def pad_len(n):
    """number of 64-byte blocks of the padded message of n bytes"""
    return (n + 9 + 63) // 64


def reference_points(msg_bytes, ops, mask):
    """FIPS 180-4 over a list of message bytes (z3 BV8 terms or ints).  Returns the list of reference points in order:
    (name, defining value over previous points, value) -- for z3 each point gets its own variable and `definition` is expressed over the
    variables of earlier points; for ints definition == value."""
    n = len(msg_bytes)
    zero = 0 if ops is IOps else z3.BitVecVal(0, 8)
    b80 = 0x80 if ops is IOps else z3.BitVecVal(0x80, 8)
    padded = list(msg_bytes) + [b80]
    while (len(padded) % 64) != 56:
        padded.append(zero)
    bitlen = n * 8
    for i in range(8):
        v = (bitlen >> (8 * (7 - i))) & 255
        padded.append(v if ops is IOps else z3.BitVecVal(v, 8))
    points = []

    def point(name, definition):
        if ops is IOps:
            points.append((name, definition & M32, definition & M32))
            return definition & M32
        d = z3.simplify(definition)
        if z3.is_bv_value(d):
            # a point that does not depend on the message (padding words, early rounds of a constant block): keep the value itself,
            # so that the implementation's constant-folded terms meet constants, not free variables
            points.append((name, d, d))
            return d
        if z3.is_const(d) and d.decl().kind() == z3.Z3_OP_UNINTERPRETED:
            # the point is (syntactically, after simplification) an earlier point: alias it instead of a second free variable
            points.append((name, d, d))
            return d
        var = z3.BitVec(name, 32)
        points.append((name, definition, var))
        return var

    def add(*xs):
        acc = xs[0]
        for x in xs[1:]:
            acc = acc + x
        return acc & M32 if ops is IOps else acc
    H = [ops.const(h) for h in H0]
    for blk in range(len(padded) // 64):
        chunk = padded[blk * 64:(blk + 1) * 64]
        W = []
        for t in range(16):
            W.append(point(f'W_{blk}_{t}', ops.from_bytes(chunk[4 * t:4 * t + 4])))
        for t in range(16, 64):
            s0 = ops.rotr(W[t - 15], 7) ^ ops.rotr(W[t - 15], 18) ^ ops.shr(W[t - 15], 3)
            s1 = ops.rotr(W[t - 2], 17) ^ ops.rotr(W[t - 2], 19) ^ ops.shr(W[t - 2], 10)
            W.append(point(f'W_{blk}_{t}', add(W[t - 16], s0, W[t - 7], s1)))
        a, b, c, d, e, f, g, h = H
        for t in range(64):
            S1 = ops.rotr(e, 6) ^ ops.rotr(e, 11) ^ ops.rotr(e, 25)
            ch = (e & f) ^ ((~e) & g) if ops is not IOps else (e & f) ^ ((~e & M32) & g)
            t1 = point(f'T1_{blk}_{t}', add(h, S1, ch, ops.const(K[t]), W[t]))
            S0 = ops.rotr(a, 2) ^ ops.rotr(a, 13) ^ ops.rotr(a, 22)
            maj = (a & b) ^ (a & c) ^ (b & c)
            t2 = point(f'T2_{blk}_{t}', add(S0, maj))
            h, g, f = g, f, e
            e = point(f'E_{blk}_{t}', add(d, t1))
            d, c, b = c, b, a
            a = point(f'A_{blk}_{t}', add(t1, t2))
        H = [point(f'H_{blk}_{i}', add(H[i], x)) for i, x in enumerate([a, b, c, d, e, f, g, h])]
    return points, H, padded


# ------------------------------------------------------------------------------ implementation DAG: concrete and symbolic evaluation
def toi32(x):
    x &= M32
    return x - (1 << 32) if x >> 31 else x


def eval_concrete(nodes, env):
    vals = [0] * len(nodes)
    for i, nd in enumerate(nodes):
        op = nd[0]
        if op == 'in':
            vals[i] = env[nd[1]]
        elif op == 'const':
            vals[i] = int(nd[1])
        else:
            a = [vals[j] for j in nd[1]]
            if op == 'add':
                vals[i] = a[0] + a[1]
            elif op == 'sub':
                vals[i] = a[0] - a[1]
            elif op == 'mul':
                vals[i] = a[0] * a[1]
            elif op == 'and':
                vals[i] = toi32(toi32(a[0]) & toi32(a[1]))
            elif op == 'or':
                vals[i] = toi32(toi32(a[0]) | toi32(a[1]))
            elif op == 'xor':
                vals[i] = toi32(toi32(a[0]) ^ toi32(a[1]))
            elif op == 'not':
                vals[i] = toi32(~toi32(a[0]))
            elif op == 'shl':
                vals[i] = toi32((a[0] & M32) << nd[2])
            elif op == 'shr':
                vals[i] = toi32(a[0]) >> nd[2]
            elif op == 'ushr':
                vals[i] = (a[0] & M32) >> nd[2]
            elif op == 'tou8':
                vals[i] = a[0] & 255
            elif op == 'tou32':
                vals[i] = a[0] & M32
            else:
                raise Exception('op ' + op)
    return vals


def i32z(x):
    return z3.SignExt(32, z3.Extract(31, 0, x))


def u32z(x):
    return z3.ZeroExt(32, z3.Extract(31, 0, x))


def is_cut(nd):
    return nd[0] in ('tou32',) or (nd[0] == 'ushr' and nd[2] == 0)


def canon_key(s):
    names = {}

    def rep(m):
        nm = m.group(0)
        if nm not in names:
            names[nm] = f'v{len(names)}'
        return names[nm]
    return re.sub(r'\b(?:[A-Z][A-Za-z0-9]*_\d+_\d+|m\d+|s\d+_\d+|u_\d+)\b', rep, s)


class Sweeper:
    def __init__(self, cache=None, timeout_ms=20000):
        self.cache = cache if cache is not None else {}
        self.timeout_ms = timeout_ms
        self.queries = 0
        self.cache_hits = 0
        self.solver_s = 0.0
        self.proved = 0
        self.unproved = []
        self.samples = []

    def prove_equal(self, a, b, label):
        """is a == b valid (all variables free)?  returns True / False(sat) / None(unknown)"""
        key = canon_key(a.sexpr() + ' ||| ' + b.sexpr())
        if key in self.cache:
            self.cache_hits += 1
            return self.cache[key]
        s = z3.Solver()
        s.set('timeout', self.timeout_ms)
        s.add(a != b)
        t0 = time.time()
        r = s.check()
        self.solver_s += time.time() - t0
        self.queries += 1
        res = True if r == z3.unsat else (False if r == z3.sat else None)
        self.cache[key] = res
        if len(self.samples) < 3 and res:
            self.samples.append({'cut_point': label, 'obligation': f'{a.sexpr()[:160]} == {b.sexpr()[:120]}', 'result': 'unsat (equal for all values of the earlier cut variables)'})
        return res

    def sweep(self, nodes, in_vars, ref_points_z3, ref_vals_runs, impl_vals_runs):
        """returns R: representative z3 BV64 term of every impl node; unmatched cut nodes get fresh variables (with definitions kept)"""
        # index reference points by their simulation signature
        sig_index = {}
        for j, (name, definition, var) in enumerate(ref_points_z3):
            sig = tuple(run[j] for run in ref_vals_runs)
            sig_index.setdefault(sig, []).append(j)
        R = [None] * len(nodes)
        self.defs = []      # (fresh var, definition) of unmatched cut nodes
        for i, nd in enumerate(nodes):
            op = nd[0]
            if op == 'in':
                R[i] = z3.ZeroExt(56, in_vars[nd[1]])
                continue
            if op == 'const':
                R[i] = z3.BitVecVal(int(nd[1]), 64)
                continue
            a = [R[j] for j in nd[1]]
            if op == 'add':
                e = a[0] + a[1]
            elif op == 'sub':
                e = a[0] - a[1]
            elif op == 'mul':
                e = a[0] * a[1]
            elif op == 'and':
                e = i32z(a[0]) & i32z(a[1])
            elif op == 'or':
                e = i32z(a[0]) | i32z(a[1])
            elif op == 'xor':
                e = i32z(a[0]) ^ i32z(a[1])
            elif op == 'not':
                e = ~i32z(a[0])
            elif op == 'shl':
                e = i32z(a[0] << nd[2])
            elif op == 'shr':
                e = i32z(a[0]) >> nd[2]
            elif op == 'ushr':
                e = z3.LShR(u32z(a[0]), nd[2])
            elif op == 'tou8':
                e = z3.ZeroExt(56, z3.Extract(7, 0, a[0]))
            elif op == 'tou32':
                e = u32z(a[0])
            else:
                raise Exception('op ' + op)
            if not is_cut(nd):
                R[i] = e
                continue
            e = z3.simplify(e)
            sig = tuple(run[i] for run in impl_vals_runs)
            matched = False
            e32 = z3.simplify(z3.Extract(31, 0, e))
            cands = sig_index.get(sig, [])[:6]
            # already the representative of a reference point (e.g. `x >>> 0` of a value stored before)?
            for j in cands:
                if e32.eq(ref_points_z3[j][2]):
                    R[i] = z3.ZeroExt(32, ref_points_z3[j][2])
                    matched = True
                    break
            if matched:
                continue
            for j in cands:
                name, definition, var = ref_points_z3[j]
                ok = self.prove_equal(e32, definition, name)
                if ok:
                    R[i] = z3.ZeroExt(32, var)
                    self.proved += 1
                    matched = True
                    break
            if not matched:
                u = z3.BitVec(f'u_{i}_0', 32)
                self.defs.append((u, z3.Extract(31, 0, e), i))
                self.unproved.append(i)
                R[i] = z3.ZeroExt(32, u)
        return R
