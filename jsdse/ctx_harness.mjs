// C16 harness: one inductive step (and short sequences of steps) of schema printing into SchemaPrintingContexts whose PRE-STATE IS SYMBOLIC.
// The set of definitions already collected by a context is a vector of solver Booleans constrained by the representation invariant
//   Inv(ctx):  nothing is in progress;  every collected definition equals the one a fresh context produces for that name (F[name]);
//              the collected set is closed under "$ref" (A collected => every name F[A] refers to is collected).
// The real schemaWithContext() runs on that state (`name in collectedDefinitions` forks on the Boolean, decided by z3 under the closure
// constraints), and afterwards: the returned schema equals the fresh one (or both throw), Inv holds again, the state only grew, and it grew by
// exactly what the printed parser reaches.  Inv holds for the empty context, so by induction every order / repetition of calls ends in the
// same export: the union of what the printed parsers reach, each definition equal to F.
// argv[2]: runtime dir (instrumented for exploration, stripped for replay); argv[3]: job JSON
import path from 'node:path';
import fs from 'node:fs';
const dir = process.argv[2];
const job = JSON.parse(fs.readFileSync(process.argv[3], 'utf8'));
const { $S } = await import(path.join(dir, 'S.mjs'));
const rt = await import(path.join(dir, 'codegen-v2.mjs'));

const isObj = (x) => typeof x === 'object' && x !== null;
function deepEq(a, b) {
  if (!isObj(a) || !isObj(b)) return a === b;
  if (Array.isArray(a) !== Array.isArray(b)) return false;
  if (Array.isArray(a)) return a.length === b.length && a.every((x, i) => deepEq(x, b[i]));
  const ka = Object.keys(a), kb = Object.keys(b);
  return ka.length === kb.length && ka.every((k) => Object.prototype.hasOwnProperty.call(b, k) && deepEq(a[k], b[k]));
}
function refsOf(S_, out = []) { if (isObj(S_)) { if (typeof S_.$ref === 'string') out.push(S_.$ref); for (const k of Object.keys(S_)) refsOf(S_[k], out); } return out; }
const clone = (x) => JSON.parse(JSON.stringify(x));
const short = (x) => { const s = JSON.stringify(x); return s === undefined ? String(x) : s.length > 140 ? s.slice(0, 140) + '…' : s; };

// ---- modules: the code emitted by the real compiler is turned into a factory, so that every explored path (and the fresh-context reference)
// gets its own instance of all runtype objects: a memo kept on them by a change cannot leak from one path into another, only along the steps of one history
const GLUE = job.glue;
const factory = new Function(...GLUE, 'class RefRuntype extends BaseRefRuntype { getNamedRuntypes() { return namedRuntypes; } }\n' + job.code +
  '\nconst parsers = {};\nfor (const k of Object.keys(buildParsersInput)) parsers[k] = buildParserFromRuntype(buildParsersInput[k], k, false);\n' +
  // two parsers may carry the same display name (two generated modules that both export `Reply`, or ad-hoc b.Object(...) parsers)
  'for (const d of ' + JSON.stringify(job.sameName || []) + ') parsers[d.key] = buildParserFromRuntype(buildParsersInput[d.of], d.name, false);\nreturn { parsers, namedRuntypes };');
const instantiate = () => factory(...GLUE.map((g) => rt[g]));
const ref = instantiate();
let mod = null;
const parserNames = job.parsers;
const templates = job.templates;            // [{refPathTemplate, definitionContainerKey}]
const nameOfRef = (tpl, r) => { const [pre, post] = tpl.refPathTemplate.split('{name}'); return r.startsWith(pre) && r.endsWith(post) ? r.slice(pre.length, r.length - post.length) : null; };

// fresh-context reference per template: returned schema (or the error) per parser, definitions F, reach sets
const fresh = templates.map((tpl) => {
  const F = Object.create(null), J = Object.create(null), reach = Object.create(null), conflicts = [];
  for (const p of parserNames) {
    const c = new rt.SchemaPrintingContext(tpl);
    try { J[p] = { schema: ref.parsers[p].schemaWithContext(c) }; } catch (e) { J[p] = { threw: String(e && e.message).slice(0, 120) }; }
    const defs = c.collectedDefinitions;
    reach[p] = J[p].threw ? [] : Object.keys(defs);
    if (!J[p].threw) for (const n of Object.keys(defs)) { if (n in F && !deepEq(F[n], defs[n])) conflicts.push(n); else F[n] = clone(defs[n]); }
  }
  const U = Object.keys(F).sort();
  const deps = Object.create(null);
  for (const n of U) deps[n] = [...new Set(refsOf(F[n]).map((r) => nameOfRef(tpl, r)))];
  return { F, J, reach, U, deps, conflicts };
});

// ---- a context whose collected definitions are symbolic (exploration) or given (replay)
function makeCtx(ci, ti, pre /* undefined = symbolic, else array of names */) {
  const fr = fresh[ti];
  const c = new rt.SchemaPrintingContext(templates[ti]);
  const sym = Object.create(null);
  if (pre === undefined) {
    fr.U.forEach((n, i) => { sym[n] = $S.symBool(`c${ci}_${i}`); });
    const cl = [];
    for (const n of fr.U) for (const d of fr.deps[n]) if (d !== null && d in sym && d !== n) cl.push(`(=> ${sym[n]} ${sym[d]})`);
    if (cl.length) $S.assume(`(and ${cl.join(' ')})`);
  }
  const written = new Map(), deleted = new Set(), log = [];
  const preHas = (k) => (pre === undefined ? (k in sym ? $S.forkOn(sym[k]) : false) : pre.includes(k));
  // own(k): k is an own key of the record (what a JSON export contains); has(k): the `in` operator, which also sees Object.prototype
  // (if the real record is a plain object literal, `"toString" in collectedDefinitions` is true from the start)
  const own = (k) => { if (typeof k !== 'string') return false; if (written.has(k)) return true; if (deleted.has(k)) return false; return preHas(k); };
  const proto = Object.getPrototypeOf(c.collectedDefinitions);      // the record the real constructor made: a plain object inherits from Object.prototype
  const has = (k) => own(k) || (typeof k === 'string' && proto !== null && k in proto);
  const get = (k) => { if (!own(k)) return typeof k === 'string' && proto !== null ? proto[k] : undefined; if (!written.has(k)) written.set(k, clone(fr.F[k])); return written.get(k); };
  const proxy = new Proxy({}, {
    has: (_t, k) => has(k),
    get: (_t, k) => (typeof k === 'string' ? get(k) : undefined),
    set: (_t, k, v) => { log.push(k); written.set(k, v); deleted.delete(k); return true; },
    deleteProperty: (_t, k) => { written.delete(k); deleted.add(k); return true; },
    ownKeys: () => { const ks = fr.U.filter((n) => own(n)); for (const k of written.keys()) if (!ks.includes(k)) ks.push(k); return ks; },
    getOwnPropertyDescriptor: (_t, k) => (own(k) ? { value: get(k), writable: true, enumerable: true, configurable: true } : undefined),
    defineProperty: (_t, k, d) => { log.push(k); written.set(k, d.value); deleted.delete(k); return true; },
  });
  c.collectedDefinitions = proxy;
  return { c, proxy, has: own, get, log, ti, fr, written, deleted, preHas };
}

function body(seq) {
  const viol = [];
  mod = instantiate();
  const V = (what) => viol.push({ prop: 'C16', what, input: JSON.stringify(seq) });
  const ctxs = seq.ctxTemplates.map((ti, ci) => makeCtx(ci, ti, job.concrete ? job.concrete.pre[ci] : undefined));
  for (const fr of fresh) for (const n of fr.conflicts) V(`the definition of ${n} differs between fresh contexts of different parsers`);
  for (let si = 0; si < seq.steps.length; si++) {
    const [pi, ci] = seq.steps[si];
    const p = parserNames[pi], X = ctxs[ci], fr = X.fr;
    const where = `step ${si + 1} (${p} into context ${ci})`;
    X.log.length = 0;
    let out;
    try { out = { schema: mod.parsers[p].schemaWithContext(X.c) }; } catch (e) {
      if (e instanceof $S.NeedsRefinement || e instanceof $S.Unmodelled || e instanceof $S.Infeasible) throw e;
      out = { threw: String(e && e.message).slice(0, 120) };
    }
    const exp = fr.J[p];
    if (!!out.threw !== !!exp.threw) V(`${where}: ${out.threw ? 'throws (' + out.threw + ')' : 'returns'} but a fresh context ${exp.threw ? 'throws' : 'returns'}`);
    else if (!out.threw && !deepEq(out.schema, exp.schema)) V(`${where}: returned schema ${short(out.schema)} differs from the fresh context's ${short(exp.schema)}`);
    // Inv again
    const inprog = Object.keys(X.c.inProgressDefinitions || {});
    if (inprog.length) V(`${where}: definitions left in progress after the call${out.threw ? ' (which threw)' : ''}: ${inprog.join(',')}`);
    for (const k of new Set(X.log)) {
      if (!(k in fr.F)) { if (X.has(k)) V(`${where}: stores a definition ${JSON.stringify(k)} that no fresh context produces`); continue; }
      if (X.has(k) && !deepEq(X.get(k), fr.F[k])) V(`${where}: definition ${k} = ${short(X.get(k))} differs from the fresh context's ${short(fr.F[k])}`);
    }
    for (const k of X.deleted) if (X.preHas(k)) V(`${where}: removes the definition ${k} collected earlier`);
    if (!out.threw && !exp.threw) {
      for (const n of fr.reach[p]) if (!X.has(n)) V(`${where}: ${n} is referenced by what ${p} prints but is not in the context afterwards`);
      for (const r of refsOf(out.schema)) { const n = nameOfRef(templates[X.ti], r); if (n === null || !X.has(n)) V(`${where}: $ref ${r} of the returned schema does not resolve in the export`); }
    }
    // closure of everything stored in this call
    for (const k of new Set(X.log)) if (X.has(k)) for (const r of refsOf(X.get(k))) { const n = nameOfRef(templates[X.ti], r); if (n === null || !X.has(n)) V(`${where}: $ref ${r} inside definition ${k} does not resolve in the export`); }
  }
  if (job.finalExport && seq.steps.length === 1) {
    for (let ci = 0; ci < ctxs.length; ci++) {
      const X = ctxs[ci];
      let d = X.c.exportDefinitions();
      if (templates[X.ti].definitionContainerKey != null) d = d[templates[X.ti].definitionContainerKey];
      if (!isObj(d)) { V(`context ${ci}: exportDefinitions() returned ${short(d)}`); continue; }
      for (const k of Object.keys(d)) if (!(k in X.fr.F) || !deepEq(d[k], X.fr.F[k])) V(`context ${ci}: exported definition ${k} = ${short(d[k])} differs from the fresh context's ${short(X.fr.F[k])}`);
      for (const k of Object.keys(d)) for (const r of refsOf(d[k])) { const n = nameOfRef(templates[X.ti], r); if (n === null || !Object.prototype.hasOwnProperty.call(d, n)) V(`context ${ci}: $ref ${r} inside exported definition ${k} does not resolve`); }
    }
  }
  return viol;
}

if (job.concrete !== undefined) {
  let viol;
  try { viol = body(job.concrete.seq); } catch (e) { viol = [{ prop: 'harness', what: 'exception in replay: ' + String(e && e.stack).slice(0, 300), input: '' }]; }
  process.stdout.write(JSON.stringify({ violations: viol, paths: 1 }));
  process.exit(0);
}
const out = { results: [], universe: fresh.map((f) => f.U), deps: fresh.map((f) => f.deps), reach: fresh.map((f) => f.reach), throws: fresh.map((f) => Object.keys(f.J).filter((p) => f.J[p].threw)) };
for (const seq of job.sequences) {
  const res = $S.explore(() => body(seq), { kinds: ['null'], maxDepth: 0, keyPool: [], maxPaths: job.maxPaths || 20000, keepQueryCache: true });
  res.seq = seq;
  res.stats = Object.assign({}, res.stats);
  out.results.push(res);
}
process.stdout.write(JSON.stringify(out));
