// hash() / hash256() of systems of NAMED types (references, aliases, recursion) on the real (type-stripped) runtime.
// argv[2]: runtime dir; argv[3]: JSON [{name, defs: {Name: spec}, root: spec}]  ->  [{name, hash, hash256}]
import path from 'node:path';
const dir = process.argv[2];
const systems = JSON.parse(process.argv[3]);
const rt = await import(path.join(dir, 'codegen-v2.mjs'));
const out = [];
for (const sys of systems) {
  const named = {};
  class LocalRef extends rt.BaseRefRuntype { getNamedRuntypes() { return named; } }
  const build = (s) => {
    switch (s.t) {
      case 'typeof': return new rt.TypeofRuntype(undefined, s.name);
      case 'nullish': return new rt.NullishRuntype(undefined, s.d || 'null');
      case 'const': return new rt.ConstRuntype(undefined, s.v);
      case 'consts': return new rt.AnyOfConstsRuntype(undefined, s.vs);
      case 'array': return new rt.ArrayRuntype(undefined, build(s.x));
      case 'tuple': return new rt.TupleRuntype(undefined, s.prefix.map(build), s.rest ? build(s.rest) : null);
      case 'optional': return new rt.OptionalFieldRuntype(build(s.x));
      case 'anyof': return new rt.AnyOfRuntype(undefined, s.xs.map(build));
      case 'allof': return new rt.AllOfRuntype(undefined, s.xs.map(build));
      case 'object': { const p = {}; for (const k of Object.keys(s.props)) p[k] = build(s.props[k]); return new rt.ObjectRuntype(undefined, p, (s.index || []).map((i) => ({ key: build(i.key), value: build(i.value) }))); }
      case 'ref': return new LocalRef(undefined, s.name);
      default: throw new Error(s.t);
    }
  };
  for (const k of Object.keys(sys.defs)) named[k] = build(sys.defs[k]);
  const p = rt.buildParserFromRuntype(build(sys.root), 'T', false);
  let r;
  try { r = { name: sys.name, hash: p.hash(), hash256: p.hash256(), describe: p.describe() }; } catch (e) { r = { name: sys.name, error: String(e && e.stack || e).slice(0, 300) }; }
  // late binding: the same system, but the parser exists (and has been asked) before the named types get their real definitions
  if (!r.error && Object.keys(sys.defs).length) {
    try {
      const named2 = {};
      class LateRef extends rt.BaseRefRuntype { getNamedRuntypes() { return named2; } }
      // placeholders first
      for (const k of Object.keys(sys.defs)) named2[k] = new rt.AnyRuntype(undefined);
      const buildL = (s) => {
        switch (s.t) {
          case 'ref': return new LateRef(undefined, s.name);
          case 'array': return new rt.ArrayRuntype(undefined, buildL(s.x));
          case 'tuple': return new rt.TupleRuntype(undefined, s.prefix.map(buildL), s.rest ? buildL(s.rest) : null);
          case 'optional': return new rt.OptionalFieldRuntype(buildL(s.x));
          case 'anyof': return new rt.AnyOfRuntype(undefined, s.xs.map(buildL));
          case 'allof': return new rt.AllOfRuntype(undefined, s.xs.map(buildL));
          case 'object': { const pp = {}; for (const k of Object.keys(s.props)) pp[k] = buildL(s.props[k]); return new rt.ObjectRuntype(undefined, pp, (s.index || []).map((i) => ({ key: buildL(i.key), value: buildL(i.value) }))); }
          default: return build(s);
        }
      };
      const pl = rt.buildParserFromRuntype(buildL(sys.root), 'T', false);
      pl.hash(); pl.hash256(); pl.describe();
      for (const k of Object.keys(sys.defs)) named2[k] = buildL(sys.defs[k]);
      r.late = { hash: pl.hash(), hash256: pl.hash256(), describe: pl.describe() };
    } catch (e) { r.late_error = String(e && e.stack || e).slice(0, 300); }
  }
  out.push(r);
}
process.stdout.write(JSON.stringify(out));
