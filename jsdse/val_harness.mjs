// harness: explores a validator of the (instrumented) client runtime on a symbolic input value and checks the obligations
// of C03 (validate/safeParse/parse agree; parsed data is a faithful projection), C11 (strict mode = default mode + no undeclared
// keys) and C12 (decode errors present, bounded, pointing into the input).
// argv[2]: directory of the instrumented runtime (S.mjs, codegen-v2.mjs, ...); argv[3]: JSON job file
import path from 'node:path';
import fs from 'node:fs';
const dir = process.argv[2];
const job = JSON.parse(fs.readFileSync(process.argv[3], 'utf8'));
const { $S } = await import(path.join(dir, 'S.mjs'));
const rt = await import(path.join(dir, 'codegen-v2.mjs'));
const { printErrors } = await import(path.join(dir, 'err.mjs'));

// ---------------------------------------------------------------------------------------------- validators from specs
const named = {};
class LocalRef extends rt.BaseRefRuntype { getNamedRuntypes() { return named; } }
function build(s) {
  switch (s.t) {
    case 'typeof': return new rt.TypeofRuntype(undefined, s.name);
    case 'any': return new rt.AnyRuntype(undefined);
    case 'never': return new rt.NeverRuntype(undefined);
    case 'nullish': return new rt.NullishRuntype(undefined, s.d || 'null');
    case 'const': return new rt.ConstRuntype(undefined, s.v);
    case 'regex': return new rt.RegexRuntype(undefined, new RegExp(s.src), s.desc || s.src);
    case 'date': return new rt.DateRuntype(undefined);
    case 'bigint': return new rt.BigIntRuntype(undefined);
    case 'typedarray': return new rt.TypedArrayRuntype(undefined, s.name);
    case 'consts': return new rt.AnyOfConstsRuntype(undefined, s.vs);
    case 'tuple': return new rt.TupleRuntype(undefined, s.prefix.map(build), s.rest ? build(s.rest) : null);
    case 'allof': return new rt.AllOfRuntype(undefined, s.xs.map(build));
    case 'anyof': return new rt.AnyOfRuntype(undefined, s.xs.map(build));
    case 'array': return new rt.ArrayRuntype(undefined, build(s.x));
    case 'map': return new rt.MapRuntype(undefined, build(s.k), build(s.v));
    case 'set': return new rt.SetRuntype(undefined, build(s.x));
    case 'optional': return new rt.OptionalFieldRuntype(build(s.x));
    case 'object': {
      const props = {};
      for (const k of Object.keys(s.props)) props[k] = build(s.props[k]);
      return new rt.ObjectRuntype(undefined, props, (s.index || []).map((p) => ({ key: build(p.key), value: build(p.value) })));
    }
    case 'disc': {
      // as the compiler prints it: `schemas` are the full member objects, `mapping` the members without the discriminator property
      const schemas = [], mapping = {}, schemaMapping = {};
      for (const k of Object.keys(s.mapping)) {
        const member = s.mapping[k];
        const full = { t: 'object', props: Object.assign({ [s.key]: { t: 'const', v: k } }, member.props), index: member.index };
        const f = build(full);
        schemas.push(f);
        mapping[k] = f;            // the compiler emits the full member (discriminator included) in both mappings
        schemaMapping[k] = f;
      }
      return new rt.AnyOfDiscriminatedRuntype(undefined, schemas, s.key, mapping, schemaMapping);
    }
    case 'ref': return new LocalRef(undefined, s.name);
    default: throw new Error('spec ' + s.t);
  }
}

// ---------------------------------------------------------------------------------------------- helpers over (partly symbolic) values
const isObj = (x) => typeof x === 'object' && x !== null && !$S.isBox(x) && !$S.isWildcard(x);
const isPlain = (x) => isObj(x) && !Array.isArray(x) && (Object.getPrototypeOf(x) === Object.prototype || Object.getPrototypeOf(x) === null);
function sameLeaf(a, b) { return a === b || (typeof a === 'number' && typeof b === 'number' && Number.isNaN(a) && Number.isNaN(b)); }
function show(x, d = 0) {
  if ($S.isWildcard(x)) return '<any>';
  if ($S.isBox(x)) return x.toJSON();
  if (typeof x === 'bigint') return x + 'n';
  if (typeof x === 'function') return '<function>';
  if (typeof x === 'symbol') return '<symbol>';
  if (x === undefined) return 'undefined';
  if (!isObj(x)) return JSON.stringify(x);
  if (d > 4) return '…';
  if (Array.isArray(x)) return '[' + x.map((e) => show(e, d + 1)).join(',') + ']';
  if (x instanceof Date) return 'Date(' + x.getTime() + ')';
  if (x instanceof Map) return 'Map{' + [...x].map(([k, v]) => show(k, d + 1) + '=>' + show(v, d + 1)).join(',') + '}';
  if (x instanceof Set) return 'Set{' + [...x].map((v) => show(v, d + 1)).join(',') + '}';
  if (ArrayBuffer.isView(x)) return x.constructor.name + '(' + x.length + ')';
  return '{' + Reflect.ownKeys(x).filter((k) => typeof k === 'string').map((k) => JSON.stringify(k) + ':' + show(x[k], d + 1)).join(',') + '}';
}
// data must be a projection of input: same container kinds, keys of data present in input, leaves identical
function projection(data, input, where, out) {
  if ($S.isWildcard(data) || $S.isBox(data) || !isObj(data)) { if (!sameLeaf(data, input)) out.push(`${where}: leaf ${show(data)} is not the input's ${show(input)}`); return; }
  if (Array.isArray(data)) {
    if (!Array.isArray(input)) { out.push(`${where}: array in data, ${show(input)} in input`); return; }
    // positions beyond the input's length read as undefined in the input: data may carry `undefined` there, nothing else
    for (let i = input.length; i < data.length; i++) if (data[i] !== undefined) out.push(`${where}[${i}]: ${show(data[i])} in data beyond the input's ${input.length} elements`);
    for (let i = 0; i < Math.min(data.length, input.length); i++) projection(data[i], input[i], `${where}[${i}]`, out);
    return;
  }
  if (data instanceof Map) {
    if (!(input instanceof Map) || data.size !== input.size) { out.push(`${where}: Map not preserved`); return; }
    const a = [...data], b = [...input];
    for (let i = 0; i < a.length; i++) { projection(a[i][0], b[i][0], `${where}<key ${i}>`, out); projection(a[i][1], b[i][1], `${where}<value ${i}>`, out); }
    return;
  }
  if (data instanceof Set) {
    if (!(input instanceof Set) || data.size !== input.size) { out.push(`${where}: Set not preserved`); return; }
    const a = [...data], b = [...input];
    for (let i = 0; i < a.length; i++) projection(a[i], b[i], `${where}<item ${i}>`, out);
    return;
  }
  if (!isPlain(data)) { if (data !== input) out.push(`${where}: ${show(data)} is not the input's ${show(input)} (kind/content must be kept)`); return; }
  // an object validator projects any non-array object (also a Date, a Map, ...) onto its declared keys
  if (!isObj(input) || Array.isArray(input)) { out.push(`${where}: object in data, ${show(input)} in input`); return; }
  for (const k of Object.keys(data)) {
    if (!Object.prototype.hasOwnProperty.call(input, k)) { out.push(`${where}: key ${JSON.stringify(k)} of data is not a key of the input`); continue; }
    projection(data[k], input[k], `${where}.${k}`, out);
  }
}
function deepEqual(a, b) {
  if ($S.isWildcard(a) || $S.isBox(a) || !isObj(a)) return sameLeaf(a, b);
  if (!isObj(b)) return false;
  if (Array.isArray(a)) return Array.isArray(b) && a.length === b.length && a.every((x, i) => deepEqual(x, b[i]));
  if (a instanceof Map) return b instanceof Map && a.size === b.size && [...a].every(([k, v], i) => deepEqual(k, [...b][i][0]) && deepEqual(v, [...b][i][1]));
  if (a instanceof Set) return b instanceof Set && a.size === b.size && [...a].every((v, i) => deepEqual(v, [...b][i]));
  if (!isPlain(a)) return a === b;
  if (!isPlain(b)) return false;
  const ka = Object.keys(a), kb = Object.keys(b);
  return ka.length === kb.length && ka.every((k) => Object.prototype.hasOwnProperty.call(b, k) && deepEqual(a[k], b[k]));
}
function sameUpToKeyOrder(a, b) { return deepEqual(a, b); }
function keyOrders(a, acc = []) { if (isPlain(a)) { acc.push(Object.keys(a).join('|')); for (const k of Object.keys(a)) keyOrders(a[k], acc); } else if (Array.isArray(a)) a.forEach((x) => keyOrders(x, acc)); return acc; }

const jstr = (x) => JSON.stringify($S.isBox(x) ? x.toJSON() : x, (_k, v) => (typeof v === 'bigint' ? `${v}n` : v));
// resolve an error path in the input (C12). returns {ok, value, why}
function resolvePath(input, segs) {
  let cur = input;
  for (let i = 0; i < segs.length; i++) {
    const s = segs[i];
    const last = i === segs.length - 1;
    let m;
    if ((m = /^\[(\d+)\]$/.exec(s))) {
      const idx = Number(m[1]);
      if (!Array.isArray(cur)) return { ok: false, why: `segment ${s} but ${show(cur)} is not an array` };
      if (idx >= cur.length) { if (last) return { ok: true, value: undefined, missing: true }; return { ok: false, why: `index ${idx} beyond length ${cur.length}` }; }
      cur = cur[idx];
    } else if ((m = /^(key|value)\((.*)\)$/.exec(s)) && cur instanceof Map) {
      let found = false;
      for (const [k, v] of cur) { if (`${jstr(k)}` === m[2]) { cur = m[1] === 'key' ? k : v; found = true; break; } }
      if (!found) return { ok: false, why: `no Map entry for ${s}` };
    } else if ((m = /^item\((.*)\)$/.exec(s)) && cur instanceof Set) {
      let found = false;
      for (const v of cur) { if (`${jstr(v)}` === m[1]) { cur = v; found = true; break; } }
      if (!found) return { ok: false, why: `no Set member for ${s}` };
    } else {
      if (!isObj(cur) || Array.isArray(cur)) return { ok: false, why: `segment ${JSON.stringify(s)} but ${show(cur)} is not an object` };
      if (!Object.prototype.hasOwnProperty.call(cur, s)) { if (last) return { ok: true, value: undefined, missing: true }; return { ok: false, why: `no property ${JSON.stringify(s)}` }; }
      cur = cur[s];
    }
  }
  return { ok: true, value: cur };
}
function checkErrors(errors, input, parent, out, depth = 0) {
  for (const e of errors) {
    if (!e || !Array.isArray(e.path)) { out.push('error without a path'); continue; }
    const full = parent.concat(e.path);
    const r = resolvePath(input, full);
    if (!r.ok) out.push(`path ${JSON.stringify(full)} does not resolve in the input: ${r.why}`);
    else if (!sameLeaf(e.received, r.value) && !(r.missing && e.received == null)) out.push(`received ${show(e.received)} is not the value at ${JSON.stringify(full)} (${show(r.value)})`);
    if (e.isUnionError) {
      if (!Array.isArray(e.errors) || e.errors.length === 0) out.push('union error without inner errors');
      else if (depth < 6) checkErrors(e.errors, input, full, out, depth + 1);
    } else if (typeof e.message !== 'string' || e.message.length === 0) out.push('error without a message');
  }
}

// undeclared keys (C11): reference computed on the spec; union branches are selected with ad-hoc validators built from the
// sub-spec and run in default mode (default-mode membership itself is the subject of C01)
const builtCache = new WeakMap();
function validatorOf(s) { let r = builtCache.get(s); if (!r) { r = build(s); builtCache.set(s, r); } return r; }
function acceptsDefault(s, v) { return validatorOf(s).validate({ disallowExtraProperties: false }, v); }
function noExtra(s, v) {
  switch (s.t) {
    case 'object': {
      if (!isObj(v) || Array.isArray(v)) return true;
      const declared = Object.keys(s.props);
      const open = s.index && s.index.length > 0;
      for (const k of Object.keys(v)) if (!declared.includes(k) && !open) return false;
      for (const k of declared) if (Object.prototype.hasOwnProperty.call(v, k) && !noExtra(s.props[k], v[k])) return false;
      if (open) for (const k of Object.keys(v)) if (!declared.includes(k)) { if (!s.index.some((p) => noExtra(p.value, v[k]))) return false; }
      return true;
    }
    case 'optional': return v == null || noExtra(s.x, v);
    case 'array': return !Array.isArray(v) || v.every((e) => noExtra(s.x, e));
    case 'tuple': return !Array.isArray(v) || v.every((e, i) => (i < s.prefix.length ? noExtra(s.prefix[i], e) : s.rest ? noExtra(s.rest, e) : true));
    case 'anyof': for (const b of s.xs) if (acceptsDefault(b, v) && noExtra(b, v)) return true; return false;
    case 'allof': {
      // keys declared by ANY member count as declared at this position
      if (!isObj(v) || Array.isArray(v)) return true;
      const members = s.xs.map((m) => resolveSpec(m));
      if (!members.every((m) => m.t === 'object')) return s.xs.every((m) => noExtra(m, v));
      const declared = new Set();
      let open = false;
      for (const m of members) { Object.keys(m.props).forEach((k) => declared.add(k)); if (m.index && m.index.length) open = true; }
      if (!open) for (const k of Object.keys(v)) if (!declared.has(k)) return false;
      for (const m of members) for (const k of Object.keys(m.props)) if (Object.prototype.hasOwnProperty.call(v, k) && !noExtra(m.props[k], v[k])) return false;
      return true;
    }
    case 'disc': {
      if (!isObj(v)) return true;
      const dv = v[s.key];
      let d = null;
      for (const key of Object.keys(s.mapping)) if ($S.bin('===', dv, key)) { d = key; break; }     // forks when the discriminator is symbolic
      if (d === null) return true;
      const m = s.mapping[d];
      return noExtra({ t: 'object', props: Object.assign({ [s.key]: { t: 'const', v: d } }, m.props), index: m.index }, v); }
    case 'ref': return noExtra(job.defs[s.name], v);
    case 'map': return !(v instanceof Map) || [...v].every(([k, x]) => noExtra(s.k, k) && noExtra(s.v, x));
    case 'set': return !(v instanceof Set) || [...v].every((x) => noExtra(s.x, x));
    default: return true;
  }
}
// "consists only of declared parts" (C03): like noExtra, but a union hands back the MERGE of the projections of all members that accept the
// value, so at a union position a key is declared when some accepting member declares it (and the value under it is declared-only for that member)
function declaredOnly(s, v, g = 0) {
  if (g > 40) return true;
  switch (s.t) {
    case 'object': {
      if (!isObj(v) || Array.isArray(v)) return true;
      const declared = Object.keys(s.props);
      const open = s.index && s.index.length > 0;
      for (const k of Object.keys(v)) if (!declared.includes(k) && !open) return false;
      for (const k of declared) if (Object.prototype.hasOwnProperty.call(v, k) && !declaredOnly(s.props[k], v[k], g + 1)) return false;
      if (open) for (const k of Object.keys(v)) if (!declared.includes(k)) { if (!s.index.some((p) => declaredOnly(p.value, v[k], g + 1))) return false; }
      return true;
    }
    case 'optional': return v == null || declaredOnly(s.x, v, g + 1);
    case 'array': return !Array.isArray(v) || v.every((e) => declaredOnly(s.x, e, g + 1));
    case 'tuple': return !Array.isArray(v) || v.every((e, i) => (i < s.prefix.length ? declaredOnly(s.prefix[i], e, g + 1) : s.rest ? declaredOnly(s.rest, e, g + 1) : true));
    case 'anyof': {
      const ms = s.xs.filter((b) => acceptsDefault(b, v));
      if (ms.some((b) => declaredOnly(b, v, g + 1))) return true;
      if (!isPlain(v)) return false;
      const objs = ms.map((b) => resolveSpec(b)).filter((m) => m.t === 'object');
      for (const k of Object.keys(v)) {
        let ok = false;
        for (const m of objs) {
          if (Object.prototype.hasOwnProperty.call(m.props, k)) { if (declaredOnly(m.props[k], v[k], g + 1)) { ok = true; break; } }
          else if (m.index && m.index.some((p) => declaredOnly(p.value, v[k], g + 1))) { ok = true; break; }
        }
        if (!ok) return false;
      }
      return true;
    }
    case 'allof': {
      if (!isObj(v) || Array.isArray(v)) return true;
      const members = s.xs.map((m) => resolveSpec(m));
      if (!members.every((m) => m.t === 'object')) return s.xs.some((m) => resolveSpec(m).t === 'any') || s.xs.every((m) => declaredOnly(m, v, g + 1));
      const declared = new Set();
      let open = false;
      for (const m of members) { Object.keys(m.props).forEach((k) => declared.add(k)); if (m.index && m.index.length) open = true; }
      if (!open) for (const k of Object.keys(v)) if (!declared.has(k)) return false;
      for (const k of Object.keys(v)) { const ds = members.filter((m) => Object.prototype.hasOwnProperty.call(m.props, k)); if (ds.length && !ds.some((m) => declaredOnly(m.props[k], v[k], g + 1))) return false; }
      return true;
    }
    case 'disc': return noExtra(s, v);
    case 'ref': return declaredOnly(job.defs[s.name], v, g + 1);
    case 'map': return !(v instanceof Map) || [...v].every(([k, x]) => declaredOnly(s.k, k, g + 1) && declaredOnly(s.v, x, g + 1));
    case 'set': return !(v instanceof Set) || [...v].every((x) => declaredOnly(s.x, x, g + 1));
    default: return true;
  }
}
// ---------------------------------------------------------------------------------------------- reference membership (C01)
// TypeScript membership under beff's runtime conventions, written against the *expected* type of the program (derived
// independently of the compiler) and using no code of the runtime under test.  Symbol-aware through the $S operators.
const T_ = (x) => $S.un('typeof', x);
const EQ = (a, b) => $S.bin('===', a, b);
const nullish = (v) => $S.bin('==', v, null);
function refMember(s, v, defs, fuel = 60) {
  if (fuel <= 0) throw new Error('reference: unfolding fuel');
  switch (s.t) {
    case 'any': return true;
    case 'never': return false;
    case 'typeof': return T_(v) === s.name;
    case 'nullish': return nullish(v);
    case 'const': return s.v === null ? nullish(v) : EQ(v, s.v);
    case 'consts': for (const c of s.vs) if (c === null ? nullish(v) : EQ(v, c)) return true; return false;
    case 'regex': { if (T_(v) !== 'string') return false; return $S.mcall(new RegExp(s.anchored), 'test', [v]); }
    case 'date': return $S.bin('instanceof', v, Date);
    case 'bigint': return T_(v) === 'bigint';
    case 'typedarray': return $S.bin('instanceof', v, globalThis[s.name]);
    case 'optional': return nullish(v) || refMember(s.x, v, defs, fuel - 1);
    case 'array': { if (!$S.mcall(Array, 'isArray', [v])) return false; for (let i = 0; i < v.length; i++) if (!refMember(s.x, v[i], defs, fuel - 1)) return false; return true; }
    case 'tuple': {
      if (!$S.mcall(Array, 'isArray', [v])) return false;
      if (s.rest ? v.length < 0 : v.length > s.prefix.length) return false;
      for (let i = 0; i < s.prefix.length; i++) if (!refMember(s.prefix[i], v[i], defs, fuel - 1)) return false;     // a missing element reads as undefined
      if (s.rest) for (let i = s.prefix.length; i < v.length; i++) if (!refMember(s.rest, v[i], defs, fuel - 1)) return false;
      return true;
    }
    case 'object': {
      if (T_(v) !== 'object' || nullish(v) || $S.mcall(Array, 'isArray', [v])) return false;
      const declared = Object.keys(s.props);
      for (const k of declared) if (!refMember(s.props[k], v[k], defs, fuel - 1)) return false;
      if (s.index && s.index.length) {
        for (const k of Object.keys(v)) {
          if (declared.includes(k)) continue;
          let ok = false;
          for (const p of s.index) if (refMember(p.key, k, defs, fuel - 1) && refMember(p.value, v[k], defs, fuel - 1)) { ok = true; break; }
          if (!ok) return false;
        }
      }
      return true;
    }
    case 'anyof': for (const x of s.xs) if (refMember(x, v, defs, fuel - 1)) return true; return false;
    case 'allof': for (const x of s.xs) if (!refMember(x, v, defs, fuel - 1)) return false; return true;
    case 'disc': { if (T_(v) !== 'object' || nullish(v)) return false; for (const k of Object.keys(s.mapping)) { const m = s.mapping[k]; if (refMember({ t: 'object', props: Object.assign({ [s.key]: { t: 'const', v: k } }, m.props), index: m.index }, v, defs, fuel - 1)) return true; } return false; }
    case 'map': { if (!$S.bin('instanceof', v, Map)) return false; for (const [k, x] of v) if (!refMember(s.k, k, defs, fuel - 1) || !refMember(s.v, x, defs, fuel - 1)) return false; return true; }
    case 'set': { if (!$S.bin('instanceof', v, Set)) return false; for (const x of v) if (!refMember(s.x, x, defs, fuel - 1)) return false; return true; }
    case 'ref': return refMember(defs[s.name], v, defs, fuel - 1);
    default: throw new Error('reference: ' + s.t);
  }
}

// ---------------------------------------------------------------------------------------------- JSON Schema (C02)
// Draft 2020-12 evaluator for the vocabulary beff emits, symbol-aware.  An unknown keyword makes the document ill-formed.
class IllFormed extends Error {}
const ANNOTATIONS = new Set(['description', 'title', 'format', 'discriminator', 'default', 'examples', '$schema', '$id', '$defs', 'definitions', 'components', '$comment', 'deprecated', 'readOnly', 'writeOnly']);
function pointer(root, ref) {
  if (typeof ref !== 'string' || !ref.startsWith('#/')) throw new IllFormed('unsupported $ref ' + JSON.stringify(ref));
  let cur = root;
  for (const seg of ref.slice(2).split('/')) {
    const k = seg.replace(/~1/g, '/').replace(/~0/g, '~');
    if (cur === null || typeof cur !== 'object' || !Object.prototype.hasOwnProperty.call(cur, k)) throw new IllFormed('$ref does not resolve: ' + ref);
    cur = cur[k];
  }
  return cur;
}
function typeIs(t, v) {
  switch (t) {
    case 'string': return T_(v) === 'string';
    case 'number': return T_(v) === 'number';
    case 'integer': return T_(v) === 'number' && $S.mcall(Number, 'isInteger', [v]);
    case 'boolean': return T_(v) === 'boolean';
    case 'null': return EQ(v, null);
    case 'array': return $S.mcall(Array, 'isArray', [v]);
    case 'object': return T_(v) === 'object' && !EQ(v, null) && !$S.mcall(Array, 'isArray', [v]);
    default: throw new IllFormed('unknown type ' + JSON.stringify(t));
  }
}
function jsonEq(a, v) {
  if (a === null || typeof a !== 'object') return EQ(v, a);
  if (Array.isArray(a)) { if (!$S.mcall(Array, 'isArray', [v]) || v.length !== a.length) return false; for (let i = 0; i < a.length; i++) if (!jsonEq(a[i], v[i])) return false; return true; }
  if (T_(v) !== 'object' || EQ(v, null) || $S.mcall(Array, 'isArray', [v])) return false;
  const ka = Object.keys(a), kv = Object.keys(v);
  if (ka.length !== kv.length) return false;
  for (const k of ka) if (!Object.prototype.hasOwnProperty.call(v, k) || !jsonEq(a[k], v[k])) return false;
  return true;
}
function jsonValid(S_, v, root, fuel = 80) {
  if (fuel <= 0) throw new IllFormed('schema reference cycle without progress');
  if (S_ === true) return true;
  if (S_ === false) return false;
  if (S_ === null || typeof S_ !== 'object' || Array.isArray(S_)) throw new IllFormed('schema is not an object or boolean: ' + JSON.stringify(S_));
  for (const kw of Object.keys(S_)) {
    const x = S_[kw];
    if (ANNOTATIONS.has(kw)) continue;
    switch (kw) {
      case '$ref': if (!jsonValid(pointer(root, x), v, root, fuel - 1)) return false; break;
      case 'type': if (Array.isArray(x)) { if (!x.some((t) => typeIs(t, v))) return false; } else if (!typeIs(x, v)) return false; break;
      case 'const': if (!jsonEq(x, v)) return false; break;
      case 'enum': if (!Array.isArray(x)) throw new IllFormed('enum is not an array'); if (!x.some((c) => jsonEq(c, v))) return false; break;
      case 'properties': {
        if (x === null || typeof x !== 'object' || Array.isArray(x)) throw new IllFormed('properties is not an object');
        if (T_(v) === 'object' && !EQ(v, null) && !$S.mcall(Array, 'isArray', [v])) for (const k of Object.keys(x)) if (Object.prototype.hasOwnProperty.call(v, k) && !jsonValid(x[k], v[k], root, fuel - 1)) return false;
        break;
      }
      case 'required': {
        if (!Array.isArray(x) || !x.every((k) => typeof k === 'string')) throw new IllFormed('required is not an array of strings');
        if (T_(v) === 'object' && !EQ(v, null) && !$S.mcall(Array, 'isArray', [v])) for (const k of x) if (!Object.prototype.hasOwnProperty.call(v, k)) return false;
        break;
      }
      case 'additionalProperties': {
        if (T_(v) === 'object' && !EQ(v, null) && !$S.mcall(Array, 'isArray', [v])) {
          const declared = S_.properties ? Object.keys(S_.properties) : [];
          for (const k of Object.keys(v)) if (!declared.includes(k) && !jsonValid(x, v[k], root, fuel - 1)) return false;
        }
        break;
      }
      case 'propertyNames': if (T_(v) === 'object' && !EQ(v, null) && !$S.mcall(Array, 'isArray', [v])) for (const k of Object.keys(v)) if (!jsonValid(x, k, root, fuel - 1)) return false; break;
      case 'prefixItems': {
        if (!Array.isArray(x)) throw new IllFormed('prefixItems is not an array');
        if ($S.mcall(Array, 'isArray', [v])) for (let i = 0; i < Math.min(x.length, v.length); i++) if (!jsonValid(x[i], v[i], root, fuel - 1)) return false;
        break;
      }
      case 'items': {
        if (Array.isArray(x)) throw new IllFormed('array-valued items (Draft 7 tuple form) is not Draft 2020-12');
        if ($S.mcall(Array, 'isArray', [v])) { const from = Array.isArray(S_.prefixItems) ? S_.prefixItems.length : 0; for (let i = from; i < v.length; i++) if (!jsonValid(x, v[i], root, fuel - 1)) return false; }
        break;
      }
      case 'minItems': if ($S.mcall(Array, 'isArray', [v]) && v.length < x) return false; break;
      case 'maxItems': if ($S.mcall(Array, 'isArray', [v]) && v.length > x) return false; break;
      case 'anyOf': { if (!Array.isArray(x) || x.length === 0) throw new IllFormed('anyOf must be a non-empty array'); let ok = false; for (const b of x) if (jsonValid(b, v, root, fuel - 1)) { ok = true; break; } if (!ok) return false; break; }
      case 'oneOf': { if (!Array.isArray(x) || x.length === 0) throw new IllFormed('oneOf must be a non-empty array'); let n = 0; for (const b of x) if (jsonValid(b, v, root, fuel - 1)) n++; if (n !== 1) return false; break; }
      case 'allOf': { if (!Array.isArray(x) || x.length === 0) throw new IllFormed('allOf must be a non-empty array'); for (const b of x) if (!jsonValid(b, v, root, fuel - 1)) return false; break; }
      case 'not': if (jsonValid(x, v, root, fuel - 1)) return false; break;
      case 'pattern': { let re; try { re = new RegExp(x, 'u'); } catch (e) { throw new IllFormed('pattern is not an ECMA-262 regular expression: ' + JSON.stringify(x)); } if (T_(v) === 'string' && !$S.mcall(new RegExp(x), 'test', [v])) return false; break; }
      default: throw new IllFormed('keyword ' + JSON.stringify(kw) + ' is not in the Draft 2020-12 vocabulary beff is expected to emit');
    }
  }
  return true;
}
function allRefs(S_, out = []) { if (S_ && typeof S_ === 'object') { if (typeof S_.$ref === 'string') out.push(S_.$ref); for (const k of Object.keys(S_)) allRefs(S_[k], out); } return out; }

// required keys are own properties at every object position (TypeScript membership; the validator also accepts a missing key whose type admits undefined)
function requiredPresent(s, v, g = 0) {
  if (g > 40) return true;
  switch (s.t) {
    case 'object': {
      if (!isObj(v) || Array.isArray(v)) return true;
      for (const k of Object.keys(s.props)) { const p = s.props[k]; const has = Object.prototype.hasOwnProperty.call(v, k); if (p.t !== 'optional' && !has) return false; if (has && !requiredPresent(p, v[k], g + 1)) return false; }
      if (s.index && s.index.length) for (const k of Object.keys(v)) if (!Object.prototype.hasOwnProperty.call(s.props, k) && !s.index.some((p) => requiredPresent(p.value, v[k], g + 1))) return false;
      return true;
    }
    case 'optional': return v == null || requiredPresent(s.x, v, g + 1);
    case 'array': return !Array.isArray(v) || v.every((e) => requiredPresent(s.x, e, g + 1));
    case 'tuple': return !Array.isArray(v) || (v.length >= s.prefix.length && v.every((e, i) => (i < s.prefix.length ? requiredPresent(s.prefix[i], e, g + 1) : s.rest ? requiredPresent(s.rest, e, g + 1) : true)));
    case 'anyof': return s.xs.some((b) => acceptsDefault(b, v) && requiredPresent(b, v, g + 1));
    case 'allof': return s.xs.every((b) => requiredPresent(b, v, g + 1));
    case 'disc': { if (!isObj(v)) return true; for (const key of Object.keys(s.mapping)) if ($S.bin('===', v[s.key], key)) { const m = s.mapping[key]; return requiredPresent({ t: 'object', props: Object.assign({ [s.key]: { t: 'const', v: key } }, m.props), index: m.index }, v, g + 1); } return true; }
    case 'ref': return requiredPresent(job.defs[s.name], v, g + 1);
    default: return true;
  }
}

function resolveSpec(s) { let g = 0; while (s.t === 'ref' && g++ < 20) s = job.defs[s.name]; return s; }

// ---------------------------------------------------------------------------------------------- main
for (const n of Object.keys(job.defs || {})) named[n] = null;
for (const n of Object.keys(job.defs || {})) named[n] = build(job.defs[n]);
let parser;
if (job.module) {
  const mod = await import(job.module);
  parser = mod.parsers[job.parser];
  if (!parser) throw new Error('parser not found: ' + job.parser);
} else {
  parser = rt.buildParserFromRuntype(build(job.spec), 'T', false);
}
const props = job.props || ['C03', 'C11', 'C12'];
const optionSets = job.options || [{}];

let parserB = job.specB ? rt.buildParserFromRuntype(build(job.specB), 'T', false) : null;
if (job.moduleB) { const modB = await import(job.moduleB); parserB = modB.parsers[job.parserB]; if (!parserB) throw new Error('parser B not found'); }
// schema documents of the parser under test (concrete runs of the real schema printer)
const schemaDocs = [];
if (props.includes('C02')) {
  const mk = (label, f) => { try { schemaDocs.push(Object.assign({ label }, f())); } catch (e) { schemaDocs.push({ label, threw: String(e && e.message).slice(0, 160) }); } };
  if (!job.recursive) mk('flat', () => { const J = parser.schema(); return { root: J, J }; });      // the flat schema is claimed for non-recursive types only
  mk('contextual #/$defs', () => { const c = new rt.SchemaPrintingContext({ refPathTemplate: '#/$defs/{name}', definitionContainerKey: '$defs' }); const J = parser.schemaWithContext(c); const d = c.exportDefinitions(); return { root: Object.assign({}, J, d), J }; });
  mk('contextual #/$defs, second context', () => { const c = new rt.SchemaPrintingContext({ refPathTemplate: '#/$defs/{name}', definitionContainerKey: '$defs' }); const J = parser.schemaWithContext(c); const d = c.exportDefinitions(); return { root: Object.assign({}, J, d), J }; });
  mk('contextual #/components/schemas', () => { const c = new rt.SchemaPrintingContext({ refPathTemplate: '#/components/schemas/{name}', definitionContainerKey: null }); const J = parser.schemaWithContext(c); const d = c.exportDefinitions(); return { root: Object.assign({}, J, { components: { schemas: d } }), J }; });
}
function isParseFailure(e) { return e instanceof Error && typeof e.message === 'string' && e.message.startsWith('Failed to parse '); }

function body(input) {
  const viol = [];
  const V = (prop, what) => viol.push({ prop, what, input: show(input) });
  // replay on the un-instrumented runtime: there are no Proxy traps, so a mutation of the input is observed by comparing a rendering taken before
  const before = job.concrete !== undefined ? show(input) : null;
  // ... and by the identity of every nested container (replacing a nested object by a stripped copy that renders the same is a mutation too)
  const refs = [];
  const walk = (x, path, d) => { if (d > 5 || !isObj(x) || $S.isBox(x) || $S.isWildcard(x)) return; refs.push([path, x]); if (Array.isArray(x)) x.forEach((e, i) => walk(e, path.concat([i]), d + 1)); else if (isPlain(x)) for (const k of Object.keys(x)) walk(x[k], path.concat([k]), d + 1); };
  if (before !== null) walk(input, [], 0);
  try { return bodyInner(input, viol, V); } finally {
    if (before !== null && props.includes('C03')) {
      let moved = null;
      for (const [path, ref] of refs) { let cur = input; for (const k of path) cur = cur == null ? undefined : cur[k]; if (cur !== ref) { moved = path; break; } }
      if (show(input) !== before || moved !== null) viol.push({ prop: 'C03', what: `the input was mutated: ${before} became ${show(input)}${moved !== null ? ' (the container at ' + JSON.stringify(moved) + ' was replaced)' : ''}`, input: before });
    }
  }
}
function bodyInner(input, viol, V) {
  for (const opts of optionSets) {
    const tag = JSON.stringify(opts);
    let v, sp, threw = null, parsed, parseThrew = null;
    try { v = parser.validate(input, opts); } catch (e) { if (e instanceof $S.NeedsRefinement || e instanceof $S.Unmodelled || e instanceof $S.Infeasible) throw e; if (e instanceof $S.Mutation) { V('C03', `validate mutates its input (${tag})`); continue; } V('C03', `validate throws ${String(e && e.message).slice(0, 120)} (${tag})`); continue; }
    try { sp = parser.safeParse(input, opts); } catch (e) { if (e instanceof $S.NeedsRefinement || e instanceof $S.Unmodelled || e instanceof $S.Infeasible) throw e; if (e instanceof $S.Mutation) { V('C03', `safeParse mutates its input (${tag})`); continue; } threw = e; }
    if (props.includes('C03')) {
      if (typeof v !== 'boolean') V('C03', `validate returns ${show(v)} (${tag})`);
      if (threw) V('C03', `safeParse throws ${String(threw && threw.message).slice(0, 120)} although validate returned ${v} (${tag})`);
      else if (sp.success !== v) V('C03', `safeParse.success=${sp.success} but validate=${v} (${tag})`);
      try { parsed = parser.parse(input, opts); } catch (e) { if (e instanceof $S.NeedsRefinement || e instanceof $S.Unmodelled || e instanceof $S.Infeasible) throw e; parseThrew = e; }
      if (v && parseThrew) V('C03', `parse throws ${String(parseThrew && parseThrew.message).slice(0, 120)} although validate returned true (${tag})`);
      if (!v && !parseThrew) V('C03', `parse returns although validate returned false (${tag})`);
      if (!v && parseThrew && !isParseFailure(parseThrew)) V('C03', `parse throws something else than its failure error: ${String(parseThrew && parseThrew.message).slice(0, 120)} (${tag})`);
      if (v && sp && sp.success) {
        const data = sp.data;
        const out = [];
        projection(data, input, '$', out);
        for (const o of out.slice(0, 2)) V('C03', `parsed data is not a projection of the input: ${o}; data=${show(data)} (${tag})`);
        // "consists only of declared parts of the input": the data carries no key the type does not declare at that position (reference: the spec)
        if (!out.length && job.spec && !declaredOnly(job.spec, data)) V('C03', `parsed data carries a key the type does not declare there: data=${show(data)} (${tag})`);
        let v2;
        try { v2 = parser.validate(data, opts); } catch (e) { if (e instanceof $S.NeedsRefinement || e instanceof $S.Unmodelled || e instanceof $S.Infeasible) throw e; v2 = 'throws ' + e.message; }
        if (v2 !== true) V('C03', `parsed data ${show(data)} is not accepted by the same validator (${v2}) (${tag})`);
        else {
          let again;
          try { again = parser.parse(data, opts); } catch (e) { if (e instanceof $S.NeedsRefinement || e instanceof $S.Unmodelled || e instanceof $S.Infeasible) throw e; again = e; }
          if (again instanceof Error || !deepEqual(again, data)) V('C03', `parsing the parsed data again gives ${again instanceof Error ? 'an exception' : show(again)} instead of ${show(data)} (${tag})`);
        }
        if (!parseThrew && !deepEqual(parsed, data)) V('C03', `parse and safeParse return different data (${tag})`);
        // objectKeyOrder changes key order only
        const other = Object.assign({}, opts, { objectKeyOrder: opts.objectKeyOrder === 'sorted' ? 'input' : 'sorted' });
        let d2;
        try { d2 = parser.safeParse(input, other); } catch (e) { if (e instanceof $S.NeedsRefinement || e instanceof $S.Unmodelled || e instanceof $S.Infeasible) throw e; d2 = null; }
        if (!d2 || !d2.success || !sameUpToKeyOrder(d2.data, data)) V('C03', `objectKeyOrder changes more than key order: ${show(d2 && d2.data)} vs ${show(data)} (${tag})`);
      }
    }
    if (props.includes('C12') && v === false && sp && !sp.success) {
      const errs = sp.errors;
      if (!Array.isArray(errs) || errs.length < 1) V('C12', `rejected value but ${Array.isArray(errs) ? errs.length : 'no'} errors reported (${tag})`);
      else if (errs.length > 10) V('C12', `${errs.length} errors reported (${tag})`);
      else {
        const out = [];
        checkErrors(errs, input, [], out);
        for (const o of out.slice(0, 2)) V('C12', `${o} (${tag})`);
        let s1, s2;
        try { s1 = printErrors(errs, []); s2 = printErrors(errs, []); } catch (e) { if (e instanceof $S.NeedsRefinement || e instanceof $S.Unmodelled || e instanceof $S.Infeasible) throw e; V('C12', `printErrors throws ${String(e && e.message).slice(0, 100)} (${tag})`); }
        if (s1 !== s2) V('C12', `printErrors is not deterministic (${tag})`);
        if (parseThrew && isParseFailure(parseThrew)) { let again; try { parser.parse(input, opts); } catch (e) { if (e instanceof $S.NeedsRefinement || e instanceof $S.Unmodelled || e instanceof $S.Infeasible) throw e; again = e; } if (!again || again.message !== parseThrew.message) V('C12', `parse error message is not deterministic (${tag})`); }
      }
    }
    if ((props.includes('C08') || props.includes('C15')) && parserB && !opts.disallowExtraProperties) {
      let vb;
      try { vb = parserB.validate(input, opts); } catch (e) { if (e instanceof $S.NeedsRefinement || e instanceof $S.Unmodelled || e instanceof $S.Infeasible) throw e; vb = 'throws ' + String(e && e.message).slice(0, 80); }
      if (vb !== v) V(props.includes('C08') ? 'C08' : 'C15', `the two validators disagree: ${v} vs ${vb}`);
    }
    if (props.includes('C13') && parserB) {
      const vb = parserB.validate(input, opts);
      if (vb !== v) V('C13', `validators with equal hash256 disagree: ${v} vs ${vb}`);
    }
    if (props.includes('C02') && !opts.disallowExtraProperties) {
      for (const doc of schemaDocs) {
        if (doc.threw) { if (!job.expectSchemaThrows) V('C02', `schema printing (${doc.label}) throws: ${doc.threw}`); continue; }
        if (job.expectSchemaThrows) { V('C02', `schema printing (${doc.label}) does not throw for a type JSON Schema cannot express`); continue; }
        let ok;
        try { ok = jsonValid(doc.J, input, doc.root); } catch (e) { if (e instanceof IllFormed) { V('C02', `emitted schema (${doc.label}) is not well-formed: ${e.message}`); continue; } throw e; }
        const noX = v === true && noExtra(job.spec, input);
        const exact = noX && requiredPresent(job.spec, input);
        if (ok && !noX) V('C02', `document is valid against the schema (${doc.label}) but ${v ? 'carries an undeclared key' : 'is rejected by the validator'}`);
        if (!ok && exact && job.nullFree) V('C02', `null-free exact member of the type is not valid against the schema (${doc.label})`);
      }
    }
    if (props.includes('C01') && !opts.disallowExtraProperties) {
      const exp = refMember(job.expected, input, job.expectedDefs || {});
      if (v !== exp) V('C01', `validator ${v ? 'accepts' : 'rejects'} but the value ${exp ? 'is' : 'is not'} a member of the declared type`);
    }
    if (props.includes('C11') && !opts.disallowExtraProperties) {
      const strictOpts = Object.assign({}, opts, { disallowExtraProperties: true });
      let vs;
      try { vs = parser.validate(input, strictOpts); } catch (e) { if (e instanceof $S.NeedsRefinement || e instanceof $S.Unmodelled || e instanceof $S.Infeasible) throw e; vs = 'throws'; }
      const expect = v === true && noExtra(job.spec, input);
      if (vs !== expect) V('C11', `strict mode ${vs === true ? 'accepts' : 'rejects'} but default mode ${v ? 'accepts' : 'rejects'} and the value ${noExtra(job.spec, input) ? 'carries no' : 'carries an'} undeclared key`);
    }
  }
  return viol;
}

if (job.concrete !== undefined) {
  // replay mode: one concrete input, no symbols (used on the type-stripped, un-instrumented runtime)
  let viol;
  try { viol = body($S.decode(job.concrete)); } catch (e) { viol = [{ prop: 'harness', what: 'exception in replay: ' + String(e && e.stack).slice(0, 300), input: '' }]; }
  process.stdout.write(JSON.stringify({ violations: viol, paths: 1 }));
  process.exit(0);
}
// keys worth deciding at an object position: those the validator declares there (through unions, intersections, refs) + the extra keys
function alternatives(s, out, g = 0) {
  if (g > 12) return;
  switch (s.t) {
    case 'optional': alternatives(s.x, out, g + 1); break;
    case 'anyof': case 'allof': for (const x of s.xs) alternatives(x, out, g + 1); break;
    case 'ref': alternatives(job.defs[s.name], out, g + 1); break;
    case 'disc': for (const k of Object.keys(s.mapping)) { const m = s.mapping[k]; out.push({ t: 'object', props: Object.assign({ [s.key]: { t: 'const', v: k } }, m.props), index: m.index }); } break;
    default: out.push(s);
  }
}
function step(specs, seg) {
  const out = [];
  for (const s0 of specs) {
    const alts = [];
    alternatives(s0, alts);
    for (const s of alts) {
      let m;
      if (seg[0] === '.') { const k = seg.slice(1); if (s.t === 'object') { if (Object.prototype.hasOwnProperty.call(s.props, k)) out.push(s.props[k]); else for (const p of s.index || []) out.push(p.value); } }
      else if ((m = /^\[(\d+)\]$/.exec(seg))) { const i = Number(m[1]); if (s.t === 'array') out.push(s.x); else if (s.t === 'tuple') { if (i < s.prefix.length) out.push(s.prefix[i]); else if (s.rest) out.push(s.rest); } }
      else if (seg === '<k>' && s.t === 'map') out.push(s.k);
      else if (seg === '<v>' && s.t === 'map') out.push(s.v);
      else if (seg === '<e>' && s.t === 'set') out.push(s.x);
    }
  }
  return out;
}
const keysCache = new Map();
function keysAt(path) {
  let hit = keysCache.get(path);
  if (hit) return hit;
  const segs = path.slice(1).match(/\.[^.\[<]+|\[\d+\]|<[kve]>/g) || [];
  let specs = [job.spec];
  for (const seg of segs) specs = step(specs, seg);
  const keys = new Set();
  const alts = [];
  for (const s of specs) alternatives(s, alts);
  for (const s of alts) if (s.t === 'object') Object.keys(s.props).forEach((k) => keys.add(k));
  hit = [...keys].concat((job.extraKeys || []).filter((k) => !keys.has(k)));
  keysCache.set(path, hit);
  return hit;
}
const res = $S.explore(body, { kinds: job.kinds, leafKinds: job.leafKinds || job.kinds.filter((k) => !/^(array[1-9]|object|map1|set1)/.test(k)), maxDepth: job.maxDepth || 2, midKinds: job.midKinds, keyPool: job.keyPool, keysAt, extraKeys: job.extraKeys || [], extraKinds: job.extraKinds, maxPaths: job.maxPaths || 20000 });
process.stdout.write(JSON.stringify(res));
