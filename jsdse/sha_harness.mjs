// harness: drives the instrumented Hash256Writer with symbolic input and prints the expression DAG of its output.
// argv[2]: path of the instrumented hash module; argv[3]: JSON spec
//   {mode:"bytes", n, splits:[k1,k2,...]}       updateBytes on consecutive parts of n symbolic bytes (cut after k1, k2, ... bytes)
//   {mode:"api", ops:[["tag",L]|["string",L]|["number",x]|["boolean",b]|["null"]...]}   public entry points, ASCII-symbolic strings
import path from 'node:path';
const modPath = process.argv[2];
const { $S } = await import(path.join(path.dirname(modPath), 'S.mjs'));   // the very module instance the instrumented code uses
const spec = JSON.parse(process.argv[3]);
$S.setSymbolicTypedArrays(true);
const { Hash256Writer, generateHashFromString, generateHashFromNumbers } = await import(modPath);
$S.reset();
let out;
try {
  if (spec.mode === 'hash32str' || spec.mode === 'hash32nums') {
    const outs = [];
    for (let r = 0; r < (spec.copies || 1); r++) {
      if (spec.mode === 'hash32str') outs.push(generateHashFromString($S.symAscii(`s${r}_`, spec.n)));
      else { const xs = []; for (let i = 0; i < spec.n; i++) xs.push($S.input(`s${r}_${i}`, -2147483648, 2147483647)); outs.push(generateHashFromNumbers(xs)); }
    }
    process.stdout.write(JSON.stringify({ ok: true, dag: $S.exportDag(outs.map((o) => (o instanceof $S.SymNum ? { idx: o.id } : { value: o }))) }));
    process.exit(0);
  }
  const w = new Hash256Writer();
  if (spec.mode === 'bytes') {
    const data = $S.symBytes('m', spec.n);
    let prev = 0;
    for (const cut of [...spec.splits, spec.n]) {
      w.updateBytes(data.subarray(prev, cut));
      prev = cut;
    }
  } else {
    let k = 0;
    for (const op of spec.ops) {
      if (op[0] === 'tag') w.updateTag($S.symAscii(`s${k++}_`, op[1]));
      else if (op[0] === 'string') w.updateString($S.symAscii(`s${k++}_`, op[1]));
      else if (op[0] === 'cstring') w.updateString(op[1]);
      else if (op[0] === 'ctag') w.updateTag(op[1]);
      else if (op[0] === 'number') w.updateNumber(op[1] === 'NaN' ? NaN : op[1] === '-0' ? -0 : op[1]);
      else if (op[0] === 'boolean') w.updateBoolean(op[1]);
      else if (op[0] === 'null') w.updateNull();
    }
  }
  const hex = w.digestHex();
  const parts = hex instanceof $S.SymStrParts ? hex.parts : [hex];
  const outputs = [];
  for (const p of parts) {
    if (typeof p === 'string') for (const ch of p) outputs.push({ ch });
    else if (p instanceof $S.SymChar) outputs.push({ str: p.str, idx: p.idx.id });
    else throw new Error('unexpected output part');
  }
  out = { ok: true, dag: $S.exportDag(outputs) };
} catch (e) {
  out = { ok: false, error: String(e && e.message || e), unmodelled: e instanceof $S.Unmodelled, stack: String(e && e.stack).split('\n').slice(0, 6) };
}
process.stdout.write(JSON.stringify(out));
