// enumerates small validator trees exhaustively, computes hash256() (and hash()) of each on the real (type-stripped) runtime and
// reports every group of structurally different trees that share a digest.  argv[2]: runtime dir; argv[3]: JSON {depth, max}
import path from 'node:path';
const dir = process.argv[2];
const cfg = JSON.parse(process.argv[3] || '{}');
const rt = await import(path.join(dir, 'codegen-v2.mjs'));
const S = { t: 'typeof', name: 'string' }, N = { t: 'typeof', name: 'number' }, NUL = { t: 'nullish', d: 'null' };
const C = (v) => ({ t: 'const', v });
const named = {};
class LocalRef extends rt.BaseRefRuntype { getNamedRuntypes() { return named; } }
function build(s) {
  switch (s.t) {
    case 'typeof': return new rt.TypeofRuntype(undefined, s.name);
    case 'nullish': return new rt.NullishRuntype(undefined, s.d);
    case 'const': return new rt.ConstRuntype(undefined, s.v);
    case 'consts': return new rt.AnyOfConstsRuntype(undefined, s.vs);
    case 'any': return new rt.AnyRuntype(undefined);
    case 'array': return new rt.ArrayRuntype(undefined, build(s.x));
    case 'tuple': return new rt.TupleRuntype(undefined, s.prefix.map(build), s.rest ? build(s.rest) : null);
    case 'optional': return new rt.OptionalFieldRuntype(build(s.x));
    case 'anyof': return new rt.AnyOfRuntype(undefined, s.xs.map(build));
    case 'allof': return new rt.AllOfRuntype(undefined, s.xs.map(build));
    case 'map': return new rt.MapRuntype(undefined, build(s.k), build(s.v));
    case 'set': return new rt.SetRuntype(undefined, build(s.x));
    case 'object': { const p = {}; for (const k of Object.keys(s.props)) p[k] = build(s.props[k]); return new rt.ObjectRuntype(undefined, p, (s.index || []).map((i) => ({ key: build(i.key), value: build(i.value) }))); }
    default: throw new Error(s.t);
  }
}
function* objects(children, keys) {
  // every assignment key -> absent | child | optional(child), with or without an index signature
  const opts = [null];
  for (const c of children) { opts.push(c); opts.push({ t: 'optional', x: c }); }
  function* rec(i, props) {
    if (i === keys.length) { yield { t: 'object', props: { ...props }, index: [] }; for (const c of children) yield { t: 'object', props: { ...props }, index: [{ key: S, value: c }] }; return; }
    for (const o of opts) { if (o) props[keys[i]] = o; else delete props[keys[i]]; yield* rec(i + 1, props); }
    delete props[keys[i]];
  }
  yield* rec(0, {});
}
function level(prev, leaves, full) {
  const out = [];
  const ch = prev;
  for (const x of ch) { out.push({ t: 'array', x }); out.push({ t: 'tuple', prefix: [x], rest: null }); out.push({ t: 'tuple', prefix: [], rest: x }); out.push({ t: 'set', x }); }
  for (const x of ch) for (const y of leaves) { out.push({ t: 'tuple', prefix: [x, y], rest: null }); out.push({ t: 'tuple', prefix: [x], rest: y }); out.push({ t: 'anyof', xs: [x, y] }); out.push({ t: 'map', k: y, v: x }); }
  for (const o of objects(ch, full ? KEYS : [KEYS[0]])) out.push(o);
  return out;
}
const KEYS = cfg.keys || ['a', 'b'];
const leaves = [S, N, NUL, C('a'), C(1), { t: 'consts', vs: ['a', 1] }, { t: 'any' }];
const l1 = level(leaves, leaves, true);
let all = leaves.concat(l1);
if ((cfg.depth || 2) >= 2) {
  const O1 = [];
  for (const v of [S, N]) for (const idx of [[], [{ key: S, value: v }]]) { O1.push({ t: 'object', props: {}, index: idx }); O1.push({ t: 'object', props: { [KEYS[0]]: v }, index: idx }); O1.push({ t: 'object', props: { [KEYS[0]]: { t: 'optional', x: v } }, index: idx }); }
  const reduced = [S, N].concat(O1, [{ t: 'array', x: S }, { t: 'tuple', prefix: [S], rest: null }, { t: 'tuple', prefix: [], rest: S }, { t: 'tuple', prefix: [S], rest: N }, { t: 'anyof', xs: [S, N] }, { t: 'set', x: S }]);
  all = all.concat(level(reduced, [S, N], true));
}
const max = cfg.max || 400000;
if (all.length > max) all = all.slice(0, max);
const by256 = new Map();
let n = 0;
const orderDependent = [];
function reversedProps(s) {
  // the same tree with the insertion order of every object's properties reversed (a semantic no-op)
  if (s === null || typeof s !== 'object') return s;
  if (Array.isArray(s)) return s.map(reversedProps);
  const o = {};
  for (const k of Object.keys(s)) {
    if (k === 'props') { const p = {}; for (const kk of Object.keys(s.props).reverse()) p[kk] = reversedProps(s.props[kk]); o.props = p; } else o[k] = reversedProps(s[k]);
  }
  return o;
}
for (const s of all) {
  const p = rt.buildParserFromRuntype(build(s), 'T', false);
  const d = p.hash256();
  if (cfg.orders) {
    const q = rt.buildParserFromRuntype(build(reversedProps(s)), 'T', false);
    if ((q.hash256() !== d || q.hash() !== p.hash()) && orderDependent.length < 20) orderDependent.push({ spec: s, hash: [p.hash(), q.hash()], hash256_equal: q.hash256() === d });
  }
  const key = JSON.stringify(s);
  const g = by256.get(d);
  if (g) { if (!g.includes(key)) g.push(key); } else by256.set(d, [key]);
  n++;
}
const collisions = [];
for (const [d, g] of by256) if (g.length > 1) collisions.push({ digest: d, specs: g.slice(0, 6).map((x) => JSON.parse(x)) });
process.stdout.write(JSON.stringify({ orderDependent, trees: n, distinct_digests: by256.size, collisions: collisions.slice(0, 200), ncollisions: collisions.length }));
