// concrete replay of a SHA-256 counterexample against the type-stripped (un-instrumented) hash module and node:crypto
// argv[2]: stripped hash module; argv[3]: JSON {bytes:[...], splits:[...]} or {ops:[[kind, value]...]}
import crypto from 'node:crypto';
const { Hash256Writer } = await import(process.argv[2]);
const spec = JSON.parse(process.argv[3]);
const w = new Hash256Writer();
const ref = crypto.createHash('sha256');
if (spec.bytes) {
  const data = Uint8Array.from(spec.bytes);
  let prev = 0;
  for (const cut of [...(spec.splits || []), data.length]) { w.updateBytes(data.subarray(prev, cut)); prev = cut; }
  ref.update(data);
} else {
  const enc = new TextEncoder();
  const u32 = (n) => Uint8Array.of((n >>> 24) & 255, (n >>> 16) & 255, (n >>> 8) & 255, n & 255);
  for (const [kind, v] of spec.ops) {
    if (kind === 'ctag') { w.updateTag(v); const b = enc.encode(v); ref.update(Uint8Array.of(1)); ref.update(u32(b.length)); ref.update(b); }
    else if (kind === 'cstring') { w.updateString(v); const b = enc.encode(v); ref.update(Uint8Array.of(2)); ref.update(u32(b.length)); ref.update(b); }
    else if (kind === 'tag') { w.updateTag(v); const b = enc.encode(v); ref.update(Uint8Array.of(1)); ref.update(u32(b.length)); ref.update(b); }
    else if (kind === 'string') { w.updateString(v); const b = enc.encode(v); ref.update(Uint8Array.of(2)); ref.update(u32(b.length)); ref.update(b); }
    else if (kind === 'number') { const x = v === 'NaN' ? NaN : v === '-0' ? -0 : v; w.updateNumber(x); const t = Number.isNaN(x) ? 'NaN' : Object.is(x, -0) ? '-0' : String(x); const b = enc.encode(t); ref.update(Uint8Array.of(3)); ref.update(u32(b.length)); ref.update(b); }
    else if (kind === 'boolean') { w.updateBoolean(v); ref.update(Uint8Array.of(v ? 4 : 5)); }
    else if (kind === 'null') { w.updateNull(); ref.update(Uint8Array.of(6)); }
  }
}
let got;
try { got = w.digestHex(); } catch (e) { got = 'exception: ' + e.message; }
console.log(JSON.stringify({ got, expected: ref.digest('hex') }));
