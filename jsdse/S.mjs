// $S — runtime of the dynamic symbolic execution engine for the (type-stripped, instrumented) beff client runtime.
// Every hook performs the native JavaScript operation when no operand is symbolic.  Symbolic numbers are nodes of an
// expression DAG (exact-integer semantics of JS numbers, ToInt32/ToUint32 at bit operators) that is exported to the
// Python side, where z3 decides the obligations.  Branches on symbolic data are decided eagerly by forking: the engine
// re-executes the harness under a forced decision prefix (depth-first, exhaustive within the stated bounds).
import { spawnSync } from 'node:child_process';
import { Worker } from 'node:worker_threads';

// ---- solver co-process: one `z3 -in` kept alive in a worker thread; the main thread blocks on a SharedArrayBuffer until the answer is there.
// Every query is sent inside (push)/(pop); an answer that is not a clean sat/unsat is decided again by a fresh process; a process per query (DSE_SPAWN=1) is the fallback.
const WORKER_SRC = `
const { workerData, parentPort } = require('node:worker_threads');
const { spawn } = require('node:child_process');
const ctrl = new Int32Array(workerData.sab, 0, 4), data = new Uint8Array(workerData.sab, 16);
const END = '<<END-OF-ANSWER>>';
let z3 = null, buf = '', resolver = null;
function start() {
  z3 = spawn(workerData.z3, ['-in'], { stdio: ['pipe', 'pipe', 'ignore'] });
  buf = '';
  z3.stdout.setEncoding('utf8');
  z3.stdout.on('data', (d) => { buf += d; const i = buf.indexOf(END); if (i >= 0 && resolver) { const out = buf.slice(0, i); buf = ''; const r = resolver; resolver = null; r(out.replace(/(^|\\n)"\\s*$/, '$1')); } });
  z3.on('exit', () => { z3 = null; if (resolver) { const r = resolver; resolver = null; r('(error "solver process died")'); } });
  z3.stdin.on('error', () => {});
  ctrl[2] = z3.pid;
  z3.stdin.write('(set-option :pp.decimal true)(set-option :pp.decimal_precision 30)\\n');
}
parentPort.on('message', async (text) => {
  if (!z3) start();
  const out = await new Promise((res) => { resolver = res; z3.stdin.write('(push)\\n' + text + '\\n(pop)\\n(echo "' + END + '")\\n'); });
  const enc = Buffer.from(out, 'utf8');
  data.set(enc.subarray(0, data.length));
  ctrl[1] = Math.min(enc.length, data.length);
  Atomics.store(ctrl, 0, 2);
  Atomics.notify(ctrl, 0);
});
`;
let coproc = null;
function z3Run(z3path, script, pretty) {
  if (process.env.DSE_SPAWN) {
    const r = spawnSync(z3path, ['-in', '-T:20'].concat(pretty ? ['pp.decimal=true', 'pp.decimal_precision=30'] : []), { input: script, encoding: 'utf8' });
    return r.status === null ? '(error "solver killed")' : (r.stdout || '');
  }
  if (!coproc) {
    const sab = new SharedArrayBuffer(16 + (4 << 20));
    const worker = new Worker(WORKER_SRC, { eval: true, workerData: { sab, z3: z3path } });
    worker.unref();
    coproc = { ctrl: new Int32Array(sab, 0, 4), data: new Uint8Array(sab, 16), worker };
  }
  const text = script;
  Atomics.store(coproc.ctrl, 0, 1);
  coproc.worker.postMessage(text);
  // the co-process runs without a solver-side timeout (z3's timer costs milliseconds per query); a query that takes longer than 20 s ends the co-process
  let out = '';
  const w = Atomics.wait(coproc.ctrl, 0, 1, 20000);
  if (Atomics.load(coproc.ctrl, 0) === 2) {
    out = Buffer.from(coproc.data.subarray(0, coproc.ctrl[1])).toString('utf8');
    Atomics.store(coproc.ctrl, 0, 0);
  } else {
    try { if (coproc.ctrl[2] > 0) process.kill(coproc.ctrl[2], 'SIGKILL'); } catch (e) { /* gone already */ }
    coproc.worker.terminate();
    coproc = null;
    out = 'timeout';
  }
  if (!/^\s*(sat|unsat)\b/.test(out) || /\(error/.test(out)) {
    // anything but a clean verdict from the incremental co-process is decided again by a fresh process (the engine's original behaviour)
    st.stats.fallbacks = (st.stats.fallbacks || 0) + 1;
    const r = spawnSync(z3path, ['-in', '-T:20'].concat(pretty ? ['pp.decimal=true', 'pp.decimal_precision=30'] : []), { input: script, encoding: 'utf8' });
    return r.status === null ? '(error "solver killed")' : (r.stdout || '');
  }
  return out;
}

export class Unmodelled extends Error {}
export class Infeasible extends Error {}

// ------------------------------------------------------------------------------------------------ DAG of numeric terms
const TWO53 = 2n ** 53n;
export class SymNum {
  constructor(id, lo, hi) { this.id = id; this.lo = lo; this.hi = hi; }
  valueOf() { throw new Unmodelled('implicit conversion of a symbolic number (un-instrumented operator)'); }
  toString() { throw new Unmodelled('implicit string conversion of a symbolic number'); }
}
export class SymChar {           // str[idx] with symbolic idx
  constructor(str, idx) { this.str = str; this.idx = idx; }
  valueOf() { throw new Unmodelled('implicit conversion of a symbolic character'); }
  toString() { throw new Unmodelled('implicit string conversion of a symbolic character'); }
}
export class SymStrParts {       // concatenation of concrete strings and symbolic characters
  constructor(parts) { this.parts = parts; }
  valueOf() { throw new Unmodelled('implicit conversion of a symbolic string'); }
  toString() { throw new Unmodelled('implicit string conversion of a symbolic string'); }
}
export class SymAscii {          // string of concrete length whose characters are symbolic 7-bit codes
  constructor(chars) { this.chars = chars; this.length = chars.length; }
  valueOf() { throw new Unmodelled('implicit conversion of a symbolic string'); }
  toString() { throw new Unmodelled('implicit string conversion of a symbolic string'); }
}

export class SymTA {             // typed array (u8 / u32) whose cells may be symbolic; views share the backing store
  constructor(kind, cells, off, length) { this.kind = kind; this.cells = cells; this.off = off; this.length = length; this.BYTES_PER_ELEMENT = kind === 'u8' ? 1 : 4; }
  static make(kind, arg) {
    if (typeof arg === 'number') return new SymTA(kind, new Array(arg).fill(0), 0, arg);
    if (arg instanceof SymTA) { const t = new SymTA(kind, new Array(arg.length).fill(0), 0, arg.length); for (let i = 0; i < arg.length; i++) t.store(i, arg.load(i)); return t; }
    const a = Array.from(arg); const t = new SymTA(kind, new Array(a.length).fill(0), 0, a.length);
    for (let i = 0; i < a.length; i++) t.store(i, a[i]);
    return t;
  }
  load(i) { if (!(Number.isInteger(i) && i >= 0 && i < this.length)) return undefined; return this.cells[this.off + i]; }
  store(i, v) {
    if (!(Number.isInteger(i) && i >= 0 && i < this.length)) return;
    if (v instanceof SymNum) v = $S.node(this.kind === 'u8' ? 'tou8' : 'tou32', [v]);
    else if (typeof v === 'number') v = this.kind === 'u8' ? (v & 255) : (v >>> 0);
    else throw new Unmodelled('typed array store of ' + typeof v);
    this.cells[this.off + i] = v;
  }
  subarray(b = 0, e = this.length) {
    b = Math.max(0, Math.min(this.length, b < 0 ? this.length + b : b));
    e = Math.max(b, Math.min(this.length, e < 0 ? this.length + e : e));
    return new SymTA(this.kind, this.cells, this.off + b, e - b);
  }
  set(src, offset = 0) {
    const n = src.length;
    if (offset + n > this.length) throw new RangeError('offset is out of bounds');
    const vals = [];
    for (let i = 0; i < n; i++) vals.push(src instanceof SymTA ? src.load(i) : src[i]);
    for (let i = 0; i < n; i++) this.store(offset + i, vals[i]);
  }
  fill(v, s = 0, e = this.length) { for (let i = Math.max(0, s); i < Math.min(this.length, e); i++) this.store(i, v); return this; }
  slice(b, e) { const v = this.subarray(b, e); return SymTA.make(this.kind, v); }
  [Symbol.iterator]() { let i = 0; const self = this; return { next() { return i < self.length ? { value: self.load(i++), done: false } : { value: undefined, done: true }; } }; }
}

// ------------------------------------------------------------------------------------------------ value-level symbols
export class NeedsRefinement extends Error { constructor(path, options) { super('refine ' + path); this.path = path; this.options = options; } }
export class Mutation extends Error {}
let boxCounter = 0;
export class SymNumV {            // a JS number of unknown value (finite real, NaN, +Infinity, -Infinity); -0 is identified with 0
  constructor(path) { this.id = boxCounter++; this.path = path; }
  valueOf() { throw new Unmodelled('implicit conversion of a symbolic number (un-instrumented operator)'); }
  toString() { throw new Unmodelled('implicit string conversion of a symbolic number'); }
  toJSON() { return `\u27e8num#${this.id}\u27e9`; }
}
export class SymStrV {            // a JS string of unknown content
  constructor(path) { this.id = boxCounter++; this.path = path; }
  valueOf() { throw new Unmodelled('implicit conversion of a symbolic string (un-instrumented operator)'); }
  toString() { throw new Unmodelled('implicit string conversion of a symbolic string'); }
  toJSON() { return `\u27e8str#${this.id}\u27e9`; }
}
const WILDCARD = Symbol('wildcard');
const LAZYOBJ = Symbol('lazyobj');
function isWildcard(x) { return (typeof x === 'function' || typeof x === 'object') && x !== null && wildcards.has(x); }
const wildcards = new WeakSet();
const lazyObjs = new WeakMap();     // proxy -> {path, target}
function isBox(x) { return x instanceof SymNumV || x instanceof SymStrV; }
function isNative(f) { try { return typeof f === 'function' && /\[native code\]/.test(Function.prototype.toString.call(f)); } catch (e) { return false; } }

// ------------------------------------------------------------------------------------------------ engine state
const st = {
  nodes: [], memo: new Map(), inputs: [],
  prefix: [], decisions: [], pos: 0, stack: [], pc: [],
  symbolicTypedArrays: false,
  stats: { queries: 0, solver_ms: 0, paths: 0, infeasible: 0, cache_hits: 0 },
  shape: new Map(), kinds: [], keyPool: [], maxLen: 2, decls: new Map(), qcache: new Map(), mutated: false, z3: 'z3',
};

function big(x) { return BigInt(x); }

export const $S = {
  Unmodelled, Infeasible, SymNum, SymTA, SymChar, SymStrParts, SymAscii,
  state: st,
  setSymbolicTypedArrays(b) { st.symbolicTypedArrays = b; },
  reset() { st.nodes = []; st.memo = new Map(); st.inputs = []; st.pc = []; st.decisions = []; st.pos = 0; },

  // ---- DAG
  node(op, args, extra) {
    // constant folding when all arguments are concrete is done by the callers; here args contain >= 1 SymNum
    const ids = args.map((a) => (a instanceof SymNum ? a.id : $S.constNode(a).id));
    const key = op + ':' + ids.join(',') + (extra !== undefined ? ':' + extra : '');
    const hit = st.memo.get(key);
    if (hit) return hit;
    const A = args.map((a) => (a instanceof SymNum ? a : { lo: big(a), hi: big(a) }));
    let lo, hi;
    const I32 = [-(2n ** 31n), 2n ** 31n - 1n];
    switch (op) {
      case 'add': lo = A[0].lo + A[1].lo; hi = A[0].hi + A[1].hi; break;
      case 'sub': lo = A[0].lo - A[1].hi; hi = A[0].hi - A[1].lo; break;
      case 'mul': { const c = [A[0].lo * A[1].lo, A[0].lo * A[1].hi, A[0].hi * A[1].lo, A[0].hi * A[1].hi]; lo = c.reduce((a, b) => (a < b ? a : b)); hi = c.reduce((a, b) => (a > b ? a : b)); break; }
      case 'and': {
        // a & c with c a non-negative constant stays within [0, c]
        const c = A.find((x) => x.lo === x.hi && x.lo >= 0n);
        if (c) { lo = 0n; hi = c.lo; } else { [lo, hi] = I32; }
        break;
      }
      case 'or': case 'xor': case 'not': case 'shl': case 'shr': [lo, hi] = I32; break;
      case 'ushr': lo = 0n; hi = 2n ** BigInt(32 - extra) - 1n; break;
      case 'tou8': lo = 0n; hi = 255n; break;
      case 'tou32': lo = 0n; hi = 2n ** 32n - 1n; break;
      default: throw new Unmodelled('node op ' + op);
    }
    if (lo <= -TWO53 || hi >= TWO53) throw new Unmodelled(`integer term may leave the exact range of JS numbers (${op})`);
    const n = new SymNum(st.nodes.length, lo, hi);
    st.nodes.push(extra !== undefined ? [op, ids, extra] : [op, ids]);
    st.memo.set(key, n);
    return n;
  },
  constNode(v) {
    if (!Number.isInteger(v)) throw new Unmodelled('non-integer constant in symbolic arithmetic: ' + v);
    const key = 'const:' + v;
    const hit = st.memo.get(key);
    if (hit) return hit;
    const n = new SymNum(st.nodes.length, big(v), big(v));
    st.nodes.push(['const', String(v)]);
    st.memo.set(key, n);
    return n;
  },
  input(name, lo, hi) {
    const n = new SymNum(st.nodes.length, big(lo), big(hi));
    st.nodes.push(['in', name, String(lo), String(hi)]);
    st.inputs.push(name);
    return n;
  },
  symBytes(name, n) {
    const cells = [];
    for (let i = 0; i < n; i++) cells.push($S.input(`${name}${i}`, 0, 255));
    return new SymTA('u8', cells, 0, n);
  },
  symAscii(name, n) {
    const cs = [];
    for (let i = 0; i < n; i++) cs.push($S.input(`${name}${i}`, 0, 127));
    return new SymAscii(cs);
  },
  exportDag(outputs) { return { nodes: st.nodes, outputs }; },

  // ---- operators
  bin(op, a, b) {
    const sa = isSym(a), sb = isSym(b);
    if (!sa && !sb) return nativeBin(op, a, b);
    if ((a instanceof SymNum || typeof a === 'number') && (b instanceof SymNum || typeof b === 'number')) {
      switch (op) {
        case '+': return $S.node('add', [a, b]);
        case '-': return $S.node('sub', [a, b]);
        case '*': return $S.node('mul', [a, b]);
        case '&': return $S.node('and', [a, b]);
        case '|': return $S.node('or', [a, b]);
        case '^': return $S.node('xor', [a, b]);
        case '<<': case '>>': case '>>>': {
          if (typeof b !== 'number') throw new Unmodelled('symbolic shift amount');
          const k = b & 31;
          return $S.node(op === '<<' ? 'shl' : op === '>>' ? 'shr' : 'ushr', [a], k);
        }
        default: throw new Unmodelled('binary operator ' + op + ' on symbolic numbers (numeric DAG mode)');
      }
    }
    if (op === '+' && (typeof a === 'string' || a instanceof SymStrParts || a instanceof SymChar) && (typeof b === 'string' || b instanceof SymStrParts || b instanceof SymChar)) {
      const pa = a instanceof SymStrParts ? a.parts : [a];
      const pb = b instanceof SymStrParts ? b.parts : [b];
      return new SymStrParts(pa.concat(pb).filter((p) => p !== ''));
    }
    throw new Unmodelled(`binary operator ${op} on ${desc(a)} and ${desc(b)}`);
  },
  un(op, a) {
    if (!isSym(a)) return nativeUn(op, a);
    if (a instanceof SymNum) {
      if (op === '~') return $S.node('not', [a]);
      if (op === '-') return $S.node('sub', [0, a]);
      if (op === '+') return a;
      if (op === 'typeof') return 'number';
    }
    if (op === 'typeof' && (a instanceof SymStrParts || a instanceof SymChar || a instanceof SymAscii)) return 'string';
    if (op === 'typeof' && a instanceof SymTA) return 'object';
    throw new Unmodelled(`unary operator ${op} on ${desc(a)}`);
  },
  typeofIdent(thunk) { try { return $S.un('typeof', thunk()); } catch (e) { if (e instanceof ReferenceError) return 'undefined'; throw e; } },
  truthy(x) { if (!isSym(x)) return !!x; if (x instanceof SymTA) return true; throw new Unmodelled('truthiness of ' + desc(x)); },
  and(a, thunk) { return $S.truthy(a) ? thunk() : a; },
  or(a, thunk) { return $S.truthy(a) ? a : thunk(); },
  nullish(a, thunk) { return a === null || a === undefined ? thunk() : a; },
  sw(d, cases) { if (!isSym(d)) return d; throw new Unmodelled('switch on ' + desc(d)); },
  get(o, k) {
    if (o instanceof SymTA) { if (isSym(k)) throw new Unmodelled('symbolic index into typed array'); return typeof k === 'number' || /^\d+$/.test(String(k)) ? o.load(Number(k)) : o[k]; }
    if (typeof o === 'string' && k instanceof SymNum) return new SymChar(o, k);
    if (isSym(k) || isSymPrim(o)) throw new Unmodelled(`property read ${desc(o)}[${desc(k)}]`);
    return o[k];
  },
  set(o, k, v) {
    if (o instanceof SymTA) { if (isSym(k)) throw new Unmodelled('symbolic index into typed array'); if (typeof k === 'number') { o.store(k, v); return v; } o[k] = v; return v; }
    if (isSym(k)) throw new Unmodelled('property write with symbolic key');
    if (isSym(v) && ArrayBuffer.isView(o)) throw new Unmodelled('symbolic value stored into a native typed array');
    o[k] = v;
    return v;
  },
  new(C, args) {
    if (st.symbolicTypedArrays && (C === Uint8Array || C === Uint32Array)) {
      if (args.length > 1) throw new Unmodelled('typed array over a buffer');
      return SymTA.make(C === Uint8Array ? 'u8' : 'u32', args.length ? args[0] : 0);
    }
    if (args.some(isSym) && (C === Uint8Array || C === Uint32Array)) throw new Unmodelled('native typed array from symbolic data');
    return new C(...args);
  },
  call(f, args) {
    if (args.some(isSym)) {
      if (f === String && args[0] instanceof SymAscii) return args[0];
      if (f === Number || f === String || f === Boolean || f === BigInt || f === parseInt || f === parseFloat || f === isNaN || f === isFinite)
        throw new Unmodelled('builtin ' + f.name + ' on symbolic argument');
    }
    return f(...args);
  },
  mcall(o, m, args) {
    if (st.symbolicTypedArrays) {
      if ((o === Uint8Array || o === Uint32Array) && m === 'of') return SymTA.make(o === Uint8Array ? 'u8' : 'u32', args);
      if ((o === Uint8Array || o === Uint32Array) && m === 'from') return SymTA.make(o === Uint8Array ? 'u8' : 'u32', args[0]);
      if (o instanceof TextEncoder && m === 'encode') {
        if (args[0] instanceof SymAscii) return new SymTA('u8', args[0].chars.slice(), 0, args[0].length);
        return SymTA.make('u8', o.encode(args[0]));
      }
      if (o instanceof TextEncoder && m === 'encodeInto' && args[1] instanceof SymTA) {
        // encodeInto(source, destination): writes as many whole code points as fit and reports {read, written}
        const dst = args[1];
        if (args[0] instanceof SymAscii) { const n = Math.min(args[0].length, dst.length); for (let i = 0; i < n; i++) dst.store(i, args[0].chars[i]); return { read: n, written: n }; }
        const tmp = new Uint8Array(dst.length);
        const r = o.encodeInto(args[0], tmp);
        for (let i = 0; i < r.written; i++) dst.store(i, tmp[i]);
        return r;
      }
    }
    if (o === Math && args.some(isSym)) {
      if (m === 'floor' || m === 'ceil' || m === 'round' || m === 'trunc') return args[0];   // integer-valued terms only
      throw new Unmodelled('Math.' + m + ' on symbolic argument');
    }
    if ((o === Number || o === Object || o === Array || o === JSON) && args.some(isSym)) {
      if (o === Number && m === 'isNaN' && args[0] instanceof SymNum) return false;     // integer-valued terms are never NaN
      if (o === Number && (m === 'isFinite' || m === 'isInteger') && args[0] instanceof SymNum) return true;
      if (o === Object && m === 'is' && args[0] instanceof SymNum && Object.is(args[1], -0)) return false;
      throw new Unmodelled(`${o.name || 'builtin'}.${m} on symbolic argument`);
    }
    if (o === null || o === undefined) return o[m](...args);   // throws the native TypeError
    if (o instanceof SymAscii && m === 'charCodeAt' && Number.isInteger(args[0])) return args[0] >= 0 && args[0] < o.length ? o.chars[args[0]] : NaN;
    if (isSymPrim(o)) throw new Unmodelled(`method ${String(m)} on ${desc(o)}`);
    return o[m](...args);
  },
  tpl(quasis, exprs) {
    if (!exprs.some(isSym)) { let s = quasis[0]; for (let i = 0; i < exprs.length; i++) s += `${exprs[i]}` + quasis[i + 1]; return s; }   // `${x}` (not String(x)): throws for symbols like the original
    throw new Unmodelled('template literal with symbolic part');
  },
};

function isSymPrim(x) { return x instanceof SymNum || x instanceof SymChar || x instanceof SymStrParts || x instanceof SymAscii; }
function isSym(x) { return isSymPrim(x); }
function desc(x) { return x === null ? 'null' : isSym(x) ? x.constructor.name : typeof x; }

function nativeBin(op, a, b) {
  switch (op) {
    case '+': return a + b; case '-': return a - b; case '*': return a * b; case '/': return a / b; case '%': return a % b; case '**': return a ** b;
    case '&': return a & b; case '|': return a | b; case '^': return a ^ b; case '<<': return a << b; case '>>': return a >> b; case '>>>': return a >>> b;
    case '==': return a == b; case '!=': return a != b; case '===': return a === b; case '!==': return a !== b;
    case '<': return a < b; case '<=': return a <= b; case '>': return a > b; case '>=': return a >= b;
    case 'instanceof': return a instanceof b; case 'in': return a in b;
    default: throw new Unmodelled('operator ' + op);
  }
}
function nativeUn(op, a) {
  switch (op) {
    case '!': return !a; case '-': return -a; case '+': return +a; case '~': return ~a; case 'typeof': return typeof a; case 'void': return undefined;
    default: throw new Unmodelled('unary ' + op);
  }
}
globalThis.$S = $S;

// =====================================================================================================================
// value-level dynamic symbolic execution: wildcards refined on demand (restart), lazily keyed objects, boxed symbolic
// numbers / strings whose comparisons fork with z3 deciding feasibility.
// =====================================================================================================================
function smtStr(x) {
  let out = '"';
  for (const ch of x) {
    const c = ch.codePointAt(0);
    if (ch === '"') out += '""';
    else if (c >= 32 && c < 127 && ch !== '\\') out += ch;
    else out += '\\u{' + c.toString(16) + '}';
  }
  return out + '"';
}
function smtReal(c) {
  if (Number.isInteger(c)) return c < 0 ? `(- ${BigInt(-c)}.0)` : `${BigInt(c)}.0`;
  const t = String(Math.abs(c));
  if (/e/i.test(t)) throw new Unmodelled('number literal in exponent form');
  return c < 0 ? `(- ${t})` : t;
}
function declNum(b) { st.decls.set('n' + b.id, `(declare-const n${b.id} Real)(declare-const c${b.id} Int)(assert (and (>= c${b.id} 0) (<= c${b.id} 3)))`); }
function declStr(b) { st.decls.set('s' + b.id, `(declare-const s${b.id} String)`); }

// equality of a box with a concrete value / another box, as an SMT formula (strict equality semantics); null = never equal
function eqFormula(a, b) {
  if (a instanceof SymNumV) {
    declNum(a);
    if (b instanceof SymNumV) { declNum(b); return a === b ? `(not (= c${a.id} 1))` : `(and (= c${a.id} c${b.id}) (not (= c${a.id} 1)) (or (not (= c${a.id} 0)) (= n${a.id} n${b.id})))`; }
    if (typeof b !== 'number') return null;
    if (Number.isNaN(b)) return null;
    if (b === Infinity) return `(= c${a.id} 2)`;
    if (b === -Infinity) return `(= c${a.id} 3)`;
    return `(and (= c${a.id} 0) (= n${a.id} ${smtReal(b)}))`;
  }
  if (a instanceof SymStrV) {
    declStr(a);
    if (b instanceof SymStrV) { declStr(b); return a === b ? 'true' : `(= s${a.id} s${b.id})`; }
    if (typeof b !== 'string') return null;
    return `(= s${a.id} ${smtStr(b)})`;
  }
  if (isBox(b)) return eqFormula(b, a);
  return null;
}

function solve(extra) {
  const body = [...st.decls.values()].join('\n') + '\n' + st.pc.concat(extra ? [extra] : []).map((c) => `(assert ${c})`).join('\n');
  const hit = st.qcache.get(body);
  if (hit !== undefined) { st.stats.cache_hits++; return hit; }
  const t0 = Date.now();
  const out = z3Run(st.z3, body + '\n(check-sat)\n', false).trim();
  st.stats.queries++;
  st.stats.solver_ms += Date.now() - t0;
  if (/\(error/.test(out)) throw new Unmodelled('solver error: ' + out.slice(0, 200));
  const res = out.startsWith('sat') ? true : out.startsWith('unsat') ? false : null;
  if (res === null) throw new Unmodelled('solver answered ' + out.slice(0, 40));
  st.qcache.set(body, res);
  return res;
}
function getModel() {
  const consts = [...st.decls.keys()];
  const body = [...st.decls.values()].join('\n') + '\n' + st.pc.map((c) => `(assert ${c})`).join('\n') + '\n(check-sat)\n' +
    consts.map((k) => (k[0] === 'n' ? `(eval ${k})(eval c${k.slice(1)})` : `(eval ${k})`)).join('\n') + '\n';
  const lines = z3Run(st.z3, body, true).split('\n').filter((l) => l.length);
  if (lines[0] !== 'sat') return null;
  const model = {};
  let i = 1;
  for (const k of consts) {
    if (k[0] === 'b') { model[k] = (lines[i++] || '').trim() === 'true'; continue; }
    if (k[0] === 'n') {
      let v = lines[i++].replace(/[()?\s]/g, ' ').trim();
      let neg = false;
      if (v.startsWith('-')) { neg = true; v = v.slice(1).trim(); }
      const cls = parseInt(lines[i++].replace(/[()\s]/g, ''), 10);
      let num = v.includes('/') ? Number(v.split('/')[0]) / Number(v.split('/')[1]) : Number(v);
      if (neg) num = -num;
      model[k] = cls === 1 ? NaN : cls === 2 ? Infinity : cls === 3 ? -Infinity : num;
    } else {
      let v = lines[i++];
      v = v.slice(1, -1).replace(/""/g, '"').replace(/\\u\{([0-9a-fA-F]+)\}/g, (_, h) => String.fromCodePoint(parseInt(h, 16))).replace(/\\x([0-9a-fA-F]{2})/g, (_, h) => String.fromCharCode(parseInt(h, 16)));
      model[k] = v;
    }
  }
  return model;
}

// positional decision with feasibility: alternatives are SMT formulas (or null = unconstrained)
function decide(alternatives) {
  const n = alternatives.length;
  const replay = st.pos < st.prefix.length;
  let k;
  if (replay) k = st.prefix[st.pos];
  else {
    k = 0;
    for (let alt = n - 1; alt > 0; alt--) st.stack.push({ shape: new Map(st.shape), prefix: st.decisions.slice(0, st.pos).concat([alt]) });
  }
  st.decisions.push(k);
  st.pos++;
  const f = alternatives[k];
  if (f !== null && f !== 'true') {
    if (f === 'false') throw new Infeasible();
    st.pc.push(f);
    if (!replay || st.pos === st.prefix.length) { if (!solve()) throw new Infeasible(); }
  }
  return k;
}
function forkBool(formula) {           // returns a concrete boolean, forking on the formula
  if (formula === null || formula === 'false') return false;
  if (formula === 'true') return true;
  return decide([formula, `(not ${formula})`]) === 0;
}

// ---- JS regex -> SMT-LIB regular expression (subset: literals, escapes, classes, groups, alternation, quantifiers, outer anchors)
function regexToSmt(re) {
  let src = re.source;
  if (re.flags.replace(/[gsu]/g, '') !== '') throw new Unmodelled('regex flags ' + re.flags);
  const dotAll = re.flags.includes('s');
  let startAnch = false, endAnch = false;
  if (src.startsWith('^')) { startAnch = true; src = src.slice(1); }
  if (src.endsWith('$') && !src.endsWith('\\$')) { endAnch = true; src = src.slice(0, -1); }
  const r = regexBody(src, dotAll);
  return `(re.++ ${startAnch ? '(str.to_re "")' : 're.all'} ${r} ${endAnch ? '(str.to_re "")' : 're.all'})`;
}
function regexBody(src, dotAll) {
  // a self-contained copy of the recursive-descent parser of regexToSmt over `src`
  let i = 0;
  const ANYCH = 're.allchar';
  const range = (a, b) => `(re.range ${smtStr(a)} ${smtStr(b)})`;
  const DIGIT = range('0', '9');
  const WORD = `(re.union ${range('a', 'z')} ${range('A', 'Z')} ${DIGIT} (str.to_re "_"))`;
  const SPACE = `(re.union (str.to_re " ") (str.to_re ${smtStr('\t')}) (str.to_re ${smtStr('\n')}) (str.to_re ${smtStr('\r')}))`;
  const cls = (ch) => {
    switch (ch) {
      case 'd': return DIGIT; case 'w': return WORD; case 's': return SPACE;
      case 'D': return `(re.diff ${ANYCH} ${DIGIT})`; case 'W': return `(re.diff ${ANYCH} ${WORD})`; case 'S': return `(re.diff ${ANYCH} ${SPACE})`;
      case 'n': return `(str.to_re ${smtStr('\n')})`; case 't': return `(str.to_re ${smtStr('\t')})`; case 'r': return `(str.to_re ${smtStr('\r')})`;
      default: if (/[a-zA-Z0-9]/.test(ch)) throw new Unmodelled('regex escape \\' + ch); return `(str.to_re ${smtStr(ch)})`;
    }
  };
  const alt = () => { const parts = [seq()]; while (src[i] === '|') { i++; parts.push(seq()); } return parts.length === 1 ? parts[0] : `(re.union ${parts.join(' ')})`; };
  const seq = () => { const items = []; while (i < src.length && src[i] !== '|' && src[i] !== ')') items.push(quant()); if (items.length === 0) return '(str.to_re "")'; return items.length === 1 ? items[0] : `(re.++ ${items.join(' ')})`; };
  const quant = () => {
    let a = atom();
    for (;;) {
      const c = src[i];
      if (c === '*') { a = `(re.* ${a})`; i++; } else if (c === '+') { a = `(re.+ ${a})`; i++; } else if (c === '?') { a = `(re.opt ${a})`; i++; } else if (c === '{') {
        const m = /^\{(\d+)(,(\d*))?\}/.exec(src.slice(i));
        if (!m) throw new Unmodelled('regex quantifier');
        i += m[0].length;
        const lo = Number(m[1]);
        if (m[2] === undefined) a = `((_ re.loop ${lo} ${lo}) ${a})`;
        else if (m[3] === '') a = `(re.++ ((_ re.loop ${lo} ${lo}) ${a}) (re.* ${a}))`;
        else a = `((_ re.loop ${lo} ${Number(m[3])}) ${a})`;
      } else break;
    }
    return a;
  };
  const atom = () => {
    const c = src[i];
    if (c === '(') {
      i++;
      if (src[i] === '?') { if (src[i + 1] === ':') i += 2; else throw new Unmodelled('regex group (?' + src[i + 1]); }
      const r = alt();
      if (src[i] !== ')') throw new Unmodelled('regex: unbalanced group');
      i++;
      return r;
    }
    if (c === '[') {
      i++;
      let neg = false;
      if (src[i] === '^') { neg = true; i++; }
      const parts = [];
      while (src[i] !== ']') {
        let a;
        if (src[i] === '\\') { i++; const e = src[i++]; if ('dwsDWS'.includes(e)) { parts.push(cls(e)); continue; } a = e === 'n' ? '\n' : e === 't' ? '\t' : e === 'r' ? '\r' : e; } else a = src[i++];
        if (src[i] === '-' && src[i + 1] !== ']') { i++; let b = src[i++]; if (b === '\\') b = src[i++]; parts.push(range(a, b)); } else parts.push(`(str.to_re ${smtStr(a)})`);
      }
      i++;
      const u = parts.length === 1 ? parts[0] : `(re.union ${parts.join(' ')})`;
      return neg ? `(re.diff ${ANYCH} ${u})` : u;
    }
    if (c === '.') { i++; return dotAll ? ANYCH : `(re.diff ${ANYCH} (re.union (str.to_re ${smtStr('\n')}) (str.to_re ${smtStr('\r')})))`; }
    if (c === '\\') { i++; return cls(src[i++]); }
    if (c === '^' || c === '$') throw new Unmodelled('regex anchor inside pattern');
    i++;
    return `(str.to_re ${smtStr(c)})`;
  };
  const r = alt();
  if (i !== src.length) throw new Unmodelled('regex: trailing input');
  return r;
}

// ---- shapes: building the input value from the refinement decisions taken so far
const KIND_TABLE = {
  undefined: () => undefined, null: () => null, true: () => true, false: () => false,
  number: (p) => { const b = new SymNumV(p); st.boxes.set(p, b); return b; }, string: (p) => { const b = new SymStrV(p); st.boxes.set(p, b); return b; }, bigint: () => 7n,
  date: () => new Date(86400000), invaliddate: () => new Date(NaN), function: () => function f() {},
  u8array: () => Uint8Array.of(1, 2), buffer: () => Buffer.from([1, 2]), f64array: () => Float64Array.of(1.5), map0: () => new Map(), set0: () => new Set(),
  symbol: () => Symbol('s'),
};
function depthOf(path) { return (path.match(/[.\[<]/g) || []).length; }
function kindsAt(path) {
  const m = /\.([^.\[<]+)$/.exec(path);
  if (m && st.extraKeys.includes(m[1])) return st.extraKinds;       // the value under an undeclared key: its kind rarely matters
  const d = depthOf(path);
  return d >= st.maxDepth ? st.leafKinds : d >= 1 ? st.midKinds : st.kinds;
}
function buildValue(path) {
  const choice = st.shape.get(path);
  if (choice === undefined) return makeWildcard(path);
  const kind = kindsAt(path)[choice];
  if (kind in KIND_TABLE) return KIND_TABLE[kind](path);
  let m;
  if ((m = /^array(\d+)$/.exec(kind))) { const n = Number(m[1]); const a = []; for (let i = 0; i < n; i++) a.push(buildValue(`${path}[${i}]`)); return a; }
  if (kind === 'sparse2') { const a = [buildValue(`${path}[0]`)]; a.length = 2; return a; }      // [x, <hole>]
  if (kind === 'object') return makeLazyObject(path);
  if (kind === 'map1') { const mm = new Map(); mm.set(buildValue(path + '<k>'), buildValue(path + '<v>')); return mm; }
  if (kind === 'set1') { const ss = new Set(); ss.add(buildValue(path + '<e>')); return ss; }
  throw new Error('kind ' + kind);
}
function makeWildcard(path) {
  const refuse = () => { throw new NeedsRefinement(path, kindsAt(path).length); };
  const w = new Proxy(function wildcard() {}, {
    // JSON.stringify of a value that was never inspected is an opaque token (it only feeds messages / de-duplication keys)
    get: (t, k) => { if (k === WILDCARD) return path; if (k === 'toJSON') return () => `\u27e8any:${path}\u27e9`; refuse(); }, set: refuse, has: refuse, ownKeys: refuse, getOwnPropertyDescriptor: refuse,
    getPrototypeOf: refuse, apply: refuse, construct: refuse, defineProperty: refuse, deleteProperty: refuse, isExtensible: refuse, preventExtensions: refuse, setPrototypeOf: refuse,
  });
  wildcards.add(w);
  return w;
}
function makeLazyObject(path) {
  const target = {};
  const state = (k) => st.shape.get(`${path}.has(${JSON.stringify(k)})`);
  const pool = st.keysAt ? st.keysAt(path) : st.keyPool;
  const ensure = (k) => {
    if (typeof k !== 'string' || !pool.includes(k)) return false;      // keys outside the pool are absent
    if (Object.prototype.hasOwnProperty.call(target, k)) return true;
    const s = state(k);
    if (s === undefined) throw new NeedsRefinement(`${path}.has(${JSON.stringify(k)})`, 2);
    if (s === 1) { Object.defineProperty(target, k, { value: buildValue(`${path}.${k}`), enumerable: true, writable: true, configurable: true }); return true; }
    return false;
  };
  const all = () => { for (const k of pool) ensure(k); };
  const mut = () => { st.mutated = true; throw new Mutation('input object mutated'); };
  const p = new Proxy(target, {
    get: (t, k, r) => { if (k === LAZYOBJ) return path; if (k === 'toJSON' && !pool.includes('toJSON')) return () => `\u27e8object:${path}\u27e9`; ensure(k); return Reflect.get(t, k); },
    has: (t, k) => { ensure(k); return Reflect.has(t, k); },
    ownKeys: (t) => { all(); return Reflect.ownKeys(t); },
    getOwnPropertyDescriptor: (t, k) => { ensure(k); return Reflect.getOwnPropertyDescriptor(t, k); },
    set: mut, defineProperty: mut, deleteProperty: mut, setPrototypeOf: mut,
  });
  lazyObjs.set(p, { path, target });
  return p;
}

Object.assign($S, {
  NeedsRefinement, Mutation, SymNumV, SymStrV, isBox, isWildcard, getModel, regexToSmt, Infeasible, Unmodelled,
  // symbolic Booleans (C16: "is this definition already in the printing context?"): declared per path, constrained by assume(), branched on by forkOn()
  symBool(name) { if (!/^[A-Za-z0-9_]+$/.test(name)) throw new Error('symBool name'); st.decls.set('b' + name, `(declare-const b${name} Bool)`); return 'b' + name; },
  assume(f) { st.pc.push(f); if (!solve()) throw new Infeasible(); },
  forkOn(f) { return forkBool(f); },
  entails(f) { return !solve(`(not ${f})`); },
  // explore(body, {kinds, keyPool, maxPaths}): runs body(input) for every feasible refinement / decision sequence
  explore(body, opts) {
    st.kinds = opts.kinds;
    st.leafKinds = opts.leafKinds || opts.kinds;
    st.midKinds = opts.midKinds || opts.kinds;
    st.maxDepth = opts.maxDepth === undefined ? 3 : opts.maxDepth;
    st.keyPool = opts.keyPool;
    st.keysAt = opts.keysAt || null;
    st.extraKeys = opts.extraKeys || [];
    st.extraKinds = opts.extraKinds || ['number'];
    if (!opts.keepQueryCache || !st.qcache) st.qcache = new Map();      // the cache is keyed by the complete query text
    st.stack = [{ shape: new Map(), prefix: [] }];
    const results = { paths: 0, infeasible: 0, refinements: 0, unmodelled: [], errors: [], violations: [] };
    const maxPaths = opts.maxPaths || 20000;
    while (st.stack.length) {
      if (results.paths + results.refinements > maxPaths) { results.bound_hit = true; break; }
      const item = st.stack.pop();
      st.shape = item.shape; st.prefix = item.prefix; st.decisions = []; st.pos = 0; st.pc = []; st.decls = new Map(); st.mutated = false; boxCounter = 0; st.boxes = new Map();
      try {
        const input = buildValue('$');
        const v = body(input, { shape: st.shape });
        results.paths++;
        if (v && v.length) {
          // one witness per class of violation (solving for a model costs a solver process)
          let model, concrete;
          for (const x of v) {
            const cls = x.prop + ':' + String(x.what).replace(/\d+/g, 'N').replace(/\(\{.*?\}\)$/, '').slice(0, 60);
            results.classes = results.classes || {};
            results.classes[cls] = (results.classes[cls] || 0) + 1;
            if (results.classes[cls] > 3) continue;
            if (model === undefined) { model = getModel(); concrete = $S.concretise(model); }
            results.violations.push(Object.assign({ decisions: st.decisions.slice(), model, concrete }, x));
          }
        }
      } catch (e) {
        if (e instanceof NeedsRefinement) {
          results.refinements++;
          for (let k = e.options - 1; k >= 0; k--) { const sh = new Map(st.shape); sh.set(e.path, k); st.stack.push({ shape: sh, prefix: st.decisions.slice() }); }
        } else if (e instanceof Infeasible) results.infeasible++;
        else if (e instanceof Unmodelled) { results.unmodelled.push(e.message); if (process.env.DSE_DEBUG) results.unmodelled_stack = String(e.stack).split('\n').slice(0, 8); results.paths++; }
        else { results.errors.push({ message: String(e && e.stack || e).slice(0, 600), shape: [...st.shape.entries()] }); results.paths++; }
      }
    }
    results.stats = st.stats;
    return results;
  },
  concretise(model) {           // tagged-JSON description of the concrete input of the current path under a model (for replays)
    model = model || {};
    const boxId = (p) => { const b = st.boxes.get(p); return b ? b.id : undefined; };
    const conc = (path) => {
      const choice = st.shape.get(path);
      if (choice === undefined) return { $: 'any' };
      const kind = kindsAt(path)[choice];
      let m;
      switch (kind) {
        case 'undefined': return { $: 'undefined' };
        case 'null': return null;
        case 'true': return true;
        case 'false': return false;
        case 'number': { const v = model['n' + boxId(path)]; return v === undefined ? 0 : (Number.isFinite(v) ? v : { $: 'number', v: String(v) }); }
        case 'string': { const v = model['s' + boxId(path)]; return v === undefined ? '' : v; }
        case 'object': { const props = {}; for (const k of (st.keysAt ? st.keysAt(path) : st.keyPool)) if (st.shape.get(`${path}.has(${JSON.stringify(k)})`) === 1) Object.defineProperty(props, k, { value: conc(`${path}.${k}`), enumerable: true, writable: true, configurable: true }); return { $: 'object', props }; }
        case 'sparse2': return { $: 'sparse2', first: conc(`${path}[0]`) };
        case 'map1': return { $: 'map', entries: [[conc(path + '<k>'), conc(path + '<v>')]] };
        case 'set1': return { $: 'set', items: [conc(path + '<e>')] };
        default:
          if ((m = /^array(\d+)$/.exec(kind))) { const a = []; for (let i = 0; i < Number(m[1]); i++) a.push(conc(`${path}[${i}]`)); return a; }
          return { $: kind };
      }
    };
    return conc('$');
  },
  decode(j) {
    if (j === null || typeof j !== 'object') return j;
    if (Array.isArray(j)) return j.map((x) => $S.decode(x));
    switch (j.$) {
      case 'any': case 'null': return null;
      case 'undefined': return undefined;
      case 'number': return Number(j.v);
      case 'object': { const o = {}; for (const k of Object.keys(j.props)) Object.defineProperty(o, k, { value: $S.decode(j.props[k]), enumerable: true, writable: true, configurable: true }); return o; }
      case 'sparse2': { const a = [$S.decode(j.first)]; a.length = 2; return a; }
      case 'map': return new Map(j.entries.map(([k, v]) => [$S.decode(k), $S.decode(v)]));
      case 'set': return new Set(j.items.map((x) => $S.decode(x)));
      case 'map0': return new Map(); case 'set0': return new Set();
      case 'bigint': return 7n;
      case 'date': return new Date(86400000); case 'invaliddate': return new Date(NaN);
      case 'function': return function f() {};
      case 'u8array': return Uint8Array.of(1, 2); case 'buffer': return Buffer.from([1, 2]); case 'f64array': return Float64Array.of(1.5);
      case 'symbol': return Symbol('s');
      default: throw new Error('decode ' + JSON.stringify(j));
    }
  },
});

// ---- hooks for boxes / wildcards (wrapped around the numeric hooks defined above)
const base = { bin: $S.bin, un: $S.un, truthy: $S.truthy, get: $S.get, set: $S.set, call: $S.call, mcall: $S.mcall, tpl: $S.tpl, sw: $S.sw, nullish: $S.nullish };
function touched(...xs) { for (const x of xs) if (isWildcard(x)) { x[Symbol.iterator]; } }     // reading any property refines
function needsValueHook(x) { return isBox(x) || isWildcard(x); }
function placeholder(x) { return x.toJSON(); }

$S.bin = function (op, a, b) {
  if (!needsValueHook(a) && !needsValueHook(b)) return base.bin(op, a, b);
  if (isWildcard(a) && a === b && (op === '===' || op === '==')) return true;
  touched(a, b);
  switch (op) {
    case '===': case '==': case '!==': case '!=': {
      let f = eqFormula(a, b);
      if (f === null && (op === '==' || op === '!=')) {
        // loose equality of a boxed primitive with a non-primitive / other kind: only number<->string coercions could matter
        if ((isBox(a) && (b === null || b === undefined || typeof b === 'object' && !isBox(b))) || (isBox(b) && (a === null || a === undefined || typeof a === 'object' && !isBox(a)))) f = null;
        else if (isBox(a) !== isBox(b) || a.constructor !== b.constructor) {
          const o = isBox(a) ? b : a;
          if (typeof o === 'boolean' || typeof o === 'number' || typeof o === 'string' || typeof o === 'bigint') {
            if ((isBox(a) ? a : b) instanceof SymNumV && typeof o === 'number') f = eqFormula(a, b); else throw new Unmodelled('loose equality with coercion on a symbolic value');
          }
        }
      }
      const r = forkBool(f);
      return op[0] === '!' ? !r : r;
    }
    case 'instanceof': return false;
    case 'in': if (isBox(b)) throw new TypeError("Cannot use 'in' operator to search in a primitive"); throw new Unmodelled('in with symbolic key');
    case '+': if (typeof a === 'string' || typeof b === 'string' || a instanceof SymStrV || b instanceof SymStrV) return (isBox(a) ? placeholder(a) : a) + (isBox(b) ? placeholder(b) : b);
    // fallthrough
    default: throw new Unmodelled(`operator ${op} on a symbolic value`);
  }
};
$S.un = function (op, a) {
  if (!needsValueHook(a)) return base.un(op, a);
  touched(a);
  if (op === 'typeof') return a instanceof SymNumV ? 'number' : 'string';
  if (op === '!') return !$S.truthy(a);
  if (op === 'void') return undefined;
  throw new Unmodelled(`unary ${op} on a symbolic value`);
};
$S.truthy = function (x) {
  if (!needsValueHook(x)) return base.truthy(x);
  touched(x);
  if (x instanceof SymStrV) { declStr(x); return forkBool(`(not (= s${x.id} ""))`); }
  declNum(x);
  return forkBool(`(or (= c${x.id} 2) (= c${x.id} 3) (and (= c${x.id} 0) (not (= n${x.id} 0.0))))`);
};
$S.nullish = function (a, thunk) { if (isWildcard(a)) touched(a); return a === null || a === undefined ? thunk() : a; };
// ToPropertyKey of an array with a single (possibly nested) boxed element is that element
function toKey(k) { let g = 0; while (Array.isArray(k) && k.length === 1 && g++ < 5) { if (isWildcard(k[0])) touched(k[0]); k = k[0]; } return k; }
function arrayWithBox(k) { return Array.isArray(k) && k.length > 0 && k.some((x) => isBox(x) || isWildcard(x) || arrayWithBox(x)); }
$S.get = function (o, k) {
  if (arrayWithBox(k)) { const kk = toKey(k); if (arrayWithBox(kk)) throw new Unmodelled('array with several symbolic elements used as property key'); k = kk; }
  if (isWildcard(o)) touched(o);
  if (isWildcard(k)) touched(k);
  if (isBox(o)) throw new Unmodelled('property read on a symbolic primitive');
  if (k instanceof SymNumV) {
    // a number used as property key is its decimal string: no effect unless the object has numeric-looking keys
    if (o === null || o === undefined) return o[k];
    if (Array.isArray(o) || ArrayBuffer.isView(o) || Object.getOwnPropertyNames(o).some((n) => /^-?\d|^NaN$|^-?Infinity$/.test(n))) throw new Unmodelled('symbolic numeric key on an object with numeric keys');
    return undefined;
  }
  if (k instanceof SymStrV) {
    // fork over the keys that can make a difference: own enumerable + prototype chain properties, else "any other string"
    if (o === null || o === undefined) return o[k];
    const cands = new Set();
    for (let p = o; p !== null && p !== undefined; p = Object.getPrototypeOf(p)) {
      // own names individually; inherited names by representatives of their classes (constructor, a plain method, __proto__)
      if (p === o) for (const n of Object.getOwnPropertyNames(p)) cands.add(n);
      else for (const n of Object.getOwnPropertyNames(p)) if (n === 'constructor' || n === 'toString' || n === '__proto__' || !(n in Object.prototype)) cands.add(n);
    }
    const list = [...cands];
    declStr(k);
    const idx = decide(list.map((n) => `(= s${k.id} ${smtStr(n)})`).concat([list.length ? `(and ${list.map((n) => `(not (= s${k.id} ${smtStr(n)}))`).join(' ')})` : 'true']));
    return idx < list.length ? o[list[idx]] : undefined;
  }
  return base.get(o, k);
};
$S.set = function (o, k, v) {
  if (isWildcard(o)) touched(o);
  if (isBox(k)) {
    if (k instanceof SymStrV) { o[placeholder(k)] = v; return v; }   // result objects keyed by a symbolic string (index signatures)
    throw new Unmodelled('symbolic key in assignment');
  }
  if (isWildcard(k)) touched(k);
  if (k === '__proto__' && (isBox(v) || isWildcard(v))) {
    // assigning a primitive to __proto__ through the inherited setter is a no-op; a boxed symbolic primitive must not become the prototype
    if (isWildcard(v)) touched(v);
    if (isBox(v) && !Object.prototype.hasOwnProperty.call(o, '__proto__')) return v;
  }
  return base.set(o, k, v);
};
$S.sw = function (d, cases) {
  if (!needsValueHook(d)) return base.sw(d, cases);
  touched(d);
  const fs = cases.map((c) => eqFormula(d, c) || 'false');
  const idx = decide(fs.concat([`(and ${fs.map((f) => `(not ${f})`).join(' ')} true)`]));
  return idx < cases.length ? cases[idx] : Symbol('no-case');
};
$S.tpl = function (quasis, exprs) {
  if (!exprs.some(needsValueHook)) return base.tpl(quasis, exprs);
  exprs.forEach((e) => touched(e));
  let s = quasis[0];
  for (let i = 0; i < exprs.length; i++) s += (isBox(exprs[i]) ? placeholder(exprs[i]) : `${exprs[i]}`) + quasis[i + 1];
  return s;
};
function includesModel(arr, x, strict) {
  for (const el of arr) {
    if (el === x) return true;
    let f = eqFormula(x, el);
    if (!strict && x instanceof SymNumV && typeof el === 'number' && Number.isNaN(el)) { declNum(x); f = `(= c${x.id} 1)`; }   // SameValueZero
    if (f !== null && forkBool(f)) return true;
  }
  return false;
}
$S.call = function (f, args) {
  if (!args.some(needsValueHook)) return base.call(f, args);
  if (!isNative(f)) return f(...args);
  args.forEach((a) => touched(a));
  if (f === String) {
    // String(x): for a symbolic string the string itself; for a symbolic number a derived symbolic string (decimal rendering of integers;
    // anything else is some string that is not a decimal integer) - so that tables keyed by String(value) are followed, not skipped
    const x = args[0];
    if (x instanceof SymStrV) return x;
    if (x instanceof SymNumV) {
      declNum(x);
      const d = new SymStrV('derived:String(' + x.id + ')');
      declStr(d);
      const alts = [
        `(and (= c${x.id} 0) (is_int n${x.id}) (>= n${x.id} 0.0) (= s${d.id} (int.to.str (to_int n${x.id}))))`,
        `(and (= c${x.id} 0) (is_int n${x.id}) (< n${x.id} 0.0) (= s${d.id} (str.++ "-" (int.to.str (to_int (- n${x.id}))))))`,
        `(and (= c${x.id} 0) (not (is_int n${x.id})) (= (str.to.int s${d.id}) (- 1)) (str.contains s${d.id} "."))`,
        `(and (= c${x.id} 1) (= s${d.id} "NaN"))`,
        `(and (= c${x.id} 2) (= s${d.id} "Infinity"))`,
        `(and (= c${x.id} 3) (= s${d.id} "-Infinity"))`,
      ];
      decide(alts);
      return d;
    }
    return placeholder(x);
  }
  if (f === Boolean) return $S.truthy(args[0]);
  if (f === isNaN || f === Number.isNaN) { if (args[0] instanceof SymNumV) { declNum(args[0]); return forkBool(`(= c${args[0].id} 1)`); } if (f === Number.isNaN) return false; }
  throw new Unmodelled('native function ' + (f.name || '?') + ' on a symbolic value');
};
$S.mcall = function (o, m, args) {
  if (o === Object.prototype.hasOwnProperty && m === 'call' && arrayWithBox(args[1])) { const kk = toKey(args[1]); if (arrayWithBox(kk)) throw new Unmodelled('array with several symbolic elements used as property key'); args = [args[0], kk]; }
  const hot = needsValueHook(o) || args.some(needsValueHook);
  if (!hot) return base.mcall(o, m, args);
  if (isWildcard(o)) touched(o);
  if (isBox(o)) {
    if (o instanceof SymStrV && (m === 'toString' || m === 'valueOf')) return o;
    throw new Unmodelled(`method ${String(m)} on a symbolic primitive`);
  }
  const f = o === null || o === undefined ? undefined : o[m];
  if (typeof f !== 'function') return o[m](...args);                              // the genuine TypeError of the code under test
  if (typeof f === 'function' && !isNative(f)) return f.apply(o, args);          // user code: symbolic values flow through
  // native callee with symbolic arguments
  if ((Array.isArray(o) && (m === 'push' || m === 'unshift' || m === 'concat')) || (o instanceof Map && m === 'set') || (o instanceof Set && m === 'add')) return f.apply(o, args);   // containers just store
  args.forEach((a) => touched(a));
  if (o === Array && m === 'isArray') return Array.isArray(args[0]);
  if (o === ArrayBuffer && m === 'isView') return false;
  if (o === Object && m === 'is') { const [a, b] = args; if (isBox(a) && isBox(b) && a === b) return true; const fm = eqFormula(a, b); return forkBool(fm); }
  if (o === Object && (m === 'keys' || m === 'entries' || m === 'values' || m === 'getPrototypeOf' || m === 'getOwnPropertyNames')) { if (isBox(args[0])) return m === 'getPrototypeOf' ? (args[0] instanceof SymNumV ? Number.prototype : String.prototype) : []; }
  if (o === Number && (m === 'isNaN' || m === 'isFinite' || m === 'isInteger' || m === 'isSafeInteger')) {
    const x = args[0];
    if (!(x instanceof SymNumV)) return false;
    declNum(x);
    if (m === 'isNaN') return forkBool(`(= c${x.id} 1)`);
    if (m === 'isFinite') return forkBool(`(= c${x.id} 0)`);
    return forkBool(`(and (= c${x.id} 0) (is_int n${x.id})${m === 'isSafeInteger' ? ` (<= n${x.id} 9007199254740991.0) (>= n${x.id} (- 9007199254740991.0))` : ''})`);
  }
  if (o === JSON && m === 'stringify') {
    const x = args[0];
    if (isBox(x)) return JSON.stringify(placeholder(x));
    return JSON.stringify(...args);
  }
  if (o instanceof RegExp && m === 'test') {
    const x = args[0];
    if (x instanceof SymStrV) { declStr(x); return forkBool(`(str.in_re s${x.id} ${regexToSmt(o)})`); }
    if (x instanceof SymNumV) throw new Unmodelled('regex test on a symbolic number');
  }
  if (Array.isArray(o) && (m === 'includes' || m === 'indexOf')) {
    const x = args[0];
    if (m === 'includes') return includesModel(o, x, false);
    for (let i = 0; i < o.length; i++) { if (o[i] === x) return i; const fm = eqFormula(x, o[i]); if (fm !== null && forkBool(fm)) return i; }
    return -1;
  }
  if ((o instanceof Set || o instanceof Map) && (m === 'has' || m === 'get')) {
    const x = args[0];
    for (const el of o.keys()) { if (el === x || (eqFormula(x, el) !== null && forkBool(eqFormula(x, el)))) return m === 'has' ? true : o.get(el); }
    return m === 'has' ? false : undefined;
  }
  if (typeof f === 'function' && (f === Function.prototype.call || f === Function.prototype.apply) && typeof o === 'function') {
    // hasOwnProperty.call(obj, symKey) and friends
    if (o === Object.prototype.hasOwnProperty) {
      const [obj, key] = m === 'call' ? args : [args[0], (args[1] || [])[0]];
      if (key instanceof SymNumV) { if (Object.getOwnPropertyNames(obj).some((n) => /^-?\d|^NaN$|^-?Infinity$/.test(n))) throw new Unmodelled('symbolic numeric key on an object with numeric keys'); return false; }
      if (key instanceof SymStrV) { const names = Object.getOwnPropertyNames(obj); declStr(key); const idx = decide(names.map((n) => `(= s${key.id} ${smtStr(n)})`).concat([`(and ${names.map((n) => `(not (= s${key.id} ${smtStr(n)}))`).join(' ')} true)`])); return idx < names.length; }
    }
    if (!isNative(o)) return f.apply(o, args);
  }
  throw new Unmodelled(`native ${o && o.constructor ? o.constructor.name : typeof o}.${String(m)} on a symbolic value`);
};
