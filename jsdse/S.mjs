// $S — runtime of the dynamic symbolic execution engine for the (type-stripped, instrumented) beff client runtime.
// Every hook performs the native JavaScript operation when no operand is symbolic.  Symbolic numbers are nodes of an
// expression DAG (exact-integer semantics of JS numbers, ToInt32/ToUint32 at bit operators) that is exported to the
// Python side, where z3 decides the obligations.  Branches on symbolic data are decided eagerly by forking: the engine
// re-executes the harness under a forced decision prefix (depth-first, exhaustive within the stated bounds).
import { spawnSync } from 'node:child_process';

export class Unmodelled extends Error {}
export class Infeasible extends Error {}

// ------------------------------------------------------------------------------------------------ DAG of numeric terms
const TWO53 = 2n ** 53n;
export class SymNum {
  constructor(id, lo, hi) { this.id = id; this.lo = lo; this.hi = hi; }
  valueOf() { throw new Unmodelled('implicit conversion of a symbolic number (un-instrumented operator)'); }
  toString() { throw new Unmodelled('implicit string conversion of a symbolic number'); }
}
export class SymChar {           // str[idx] with symbolic idx
  constructor(str, idx) { this.str = str; this.idx = idx; }
  valueOf() { throw new Unmodelled('implicit conversion of a symbolic character'); }
  toString() { throw new Unmodelled('implicit string conversion of a symbolic character'); }
}
export class SymStrParts {       // concatenation of concrete strings and symbolic characters
  constructor(parts) { this.parts = parts; }
  valueOf() { throw new Unmodelled('implicit conversion of a symbolic string'); }
  toString() { throw new Unmodelled('implicit string conversion of a symbolic string'); }
}
export class SymAscii {          // string of concrete length whose characters are symbolic 7-bit codes
  constructor(chars) { this.chars = chars; this.length = chars.length; }
  valueOf() { throw new Unmodelled('implicit conversion of a symbolic string'); }
  toString() { throw new Unmodelled('implicit string conversion of a symbolic string'); }
}

export class SymTA {             // typed array (u8 / u32) whose cells may be symbolic; views share the backing store
  constructor(kind, cells, off, length) { this.kind = kind; this.cells = cells; this.off = off; this.length = length; this.BYTES_PER_ELEMENT = kind === 'u8' ? 1 : 4; }
  static make(kind, arg) {
    if (typeof arg === 'number') return new SymTA(kind, new Array(arg).fill(0), 0, arg);
    if (arg instanceof SymTA) { const t = new SymTA(kind, new Array(arg.length).fill(0), 0, arg.length); for (let i = 0; i < arg.length; i++) t.store(i, arg.load(i)); return t; }
    const a = Array.from(arg); const t = new SymTA(kind, new Array(a.length).fill(0), 0, a.length);
    for (let i = 0; i < a.length; i++) t.store(i, a[i]);
    return t;
  }
  load(i) { if (!(Number.isInteger(i) && i >= 0 && i < this.length)) return undefined; return this.cells[this.off + i]; }
  store(i, v) {
    if (!(Number.isInteger(i) && i >= 0 && i < this.length)) return;
    if (v instanceof SymNum) v = $S.node(this.kind === 'u8' ? 'tou8' : 'tou32', [v]);
    else if (typeof v === 'number') v = this.kind === 'u8' ? (v & 255) : (v >>> 0);
    else throw new Unmodelled('typed array store of ' + typeof v);
    this.cells[this.off + i] = v;
  }
  subarray(b = 0, e = this.length) {
    b = Math.max(0, Math.min(this.length, b < 0 ? this.length + b : b));
    e = Math.max(b, Math.min(this.length, e < 0 ? this.length + e : e));
    return new SymTA(this.kind, this.cells, this.off + b, e - b);
  }
  set(src, offset = 0) {
    const n = src.length;
    if (offset + n > this.length) throw new RangeError('offset is out of bounds');
    const vals = [];
    for (let i = 0; i < n; i++) vals.push(src instanceof SymTA ? src.load(i) : src[i]);
    for (let i = 0; i < n; i++) this.store(offset + i, vals[i]);
  }
  fill(v, s = 0, e = this.length) { for (let i = Math.max(0, s); i < Math.min(this.length, e); i++) this.store(i, v); return this; }
  slice(b, e) { const v = this.subarray(b, e); return SymTA.make(this.kind, v); }
  [Symbol.iterator]() { let i = 0; const self = this; return { next() { return i < self.length ? { value: self.load(i++), done: false } : { value: undefined, done: true }; } }; }
}

// ------------------------------------------------------------------------------------------------ engine state
const st = {
  nodes: [], memo: new Map(), inputs: [],
  prefix: [], decisions: [], pos: 0, stack: [], pc: [],
  symbolicTypedArrays: false,
  stats: { queries: 0, solver_ms: 0, paths: 0, infeasible: 0 },
};

function big(x) { return BigInt(x); }

export const $S = {
  Unmodelled, Infeasible, SymNum, SymTA, SymChar, SymStrParts, SymAscii,
  state: st,
  setSymbolicTypedArrays(b) { st.symbolicTypedArrays = b; },
  reset() { st.nodes = []; st.memo = new Map(); st.inputs = []; st.pc = []; st.decisions = []; st.pos = 0; },

  // ---- DAG
  node(op, args, extra) {
    // constant folding when all arguments are concrete is done by the callers; here args contain >= 1 SymNum
    const ids = args.map((a) => (a instanceof SymNum ? a.id : $S.constNode(a).id));
    const key = op + ':' + ids.join(',') + (extra !== undefined ? ':' + extra : '');
    const hit = st.memo.get(key);
    if (hit) return hit;
    const A = args.map((a) => (a instanceof SymNum ? a : { lo: big(a), hi: big(a) }));
    let lo, hi;
    const I32 = [-(2n ** 31n), 2n ** 31n - 1n];
    switch (op) {
      case 'add': lo = A[0].lo + A[1].lo; hi = A[0].hi + A[1].hi; break;
      case 'sub': lo = A[0].lo - A[1].hi; hi = A[0].hi - A[1].lo; break;
      case 'mul': { const c = [A[0].lo * A[1].lo, A[0].lo * A[1].hi, A[0].hi * A[1].lo, A[0].hi * A[1].hi]; lo = c.reduce((a, b) => (a < b ? a : b)); hi = c.reduce((a, b) => (a > b ? a : b)); break; }
      case 'and': {
        // a & c with c a non-negative constant stays within [0, c]
        const c = A.find((x) => x.lo === x.hi && x.lo >= 0n);
        if (c) { lo = 0n; hi = c.lo; } else { [lo, hi] = I32; }
        break;
      }
      case 'or': case 'xor': case 'not': case 'shl': case 'shr': [lo, hi] = I32; break;
      case 'ushr': lo = 0n; hi = 2n ** BigInt(32 - extra) - 1n; break;
      case 'tou8': lo = 0n; hi = 255n; break;
      case 'tou32': lo = 0n; hi = 2n ** 32n - 1n; break;
      default: throw new Unmodelled('node op ' + op);
    }
    if (lo <= -TWO53 || hi >= TWO53) throw new Unmodelled(`integer term may leave the exact range of JS numbers (${op})`);
    const n = new SymNum(st.nodes.length, lo, hi);
    st.nodes.push(extra !== undefined ? [op, ids, extra] : [op, ids]);
    st.memo.set(key, n);
    return n;
  },
  constNode(v) {
    if (!Number.isInteger(v)) throw new Unmodelled('non-integer constant in symbolic arithmetic: ' + v);
    const key = 'const:' + v;
    const hit = st.memo.get(key);
    if (hit) return hit;
    const n = new SymNum(st.nodes.length, big(v), big(v));
    st.nodes.push(['const', String(v)]);
    st.memo.set(key, n);
    return n;
  },
  input(name, lo, hi) {
    const n = new SymNum(st.nodes.length, big(lo), big(hi));
    st.nodes.push(['in', name, String(lo), String(hi)]);
    st.inputs.push(name);
    return n;
  },
  symBytes(name, n) {
    const cells = [];
    for (let i = 0; i < n; i++) cells.push($S.input(`${name}${i}`, 0, 255));
    return new SymTA('u8', cells, 0, n);
  },
  symAscii(name, n) {
    const cs = [];
    for (let i = 0; i < n; i++) cs.push($S.input(`${name}${i}`, 0, 127));
    return new SymAscii(cs);
  },
  exportDag(outputs) { return { nodes: st.nodes, outputs }; },

  // ---- operators
  bin(op, a, b) {
    const sa = isSym(a), sb = isSym(b);
    if (!sa && !sb) return nativeBin(op, a, b);
    if ((a instanceof SymNum || typeof a === 'number') && (b instanceof SymNum || typeof b === 'number')) {
      switch (op) {
        case '+': return $S.node('add', [a, b]);
        case '-': return $S.node('sub', [a, b]);
        case '*': return $S.node('mul', [a, b]);
        case '&': return $S.node('and', [a, b]);
        case '|': return $S.node('or', [a, b]);
        case '^': return $S.node('xor', [a, b]);
        case '<<': case '>>': case '>>>': {
          if (typeof b !== 'number') throw new Unmodelled('symbolic shift amount');
          const k = b & 31;
          return $S.node(op === '<<' ? 'shl' : op === '>>' ? 'shr' : 'ushr', [a], k);
        }
        default: throw new Unmodelled('binary operator ' + op + ' on symbolic numbers (numeric DAG mode)');
      }
    }
    if (op === '+' && (typeof a === 'string' || a instanceof SymStrParts || a instanceof SymChar) && (typeof b === 'string' || b instanceof SymStrParts || b instanceof SymChar)) {
      const pa = a instanceof SymStrParts ? a.parts : [a];
      const pb = b instanceof SymStrParts ? b.parts : [b];
      return new SymStrParts(pa.concat(pb).filter((p) => p !== ''));
    }
    throw new Unmodelled(`binary operator ${op} on ${desc(a)} and ${desc(b)}`);
  },
  un(op, a) {
    if (!isSym(a)) return nativeUn(op, a);
    if (a instanceof SymNum) {
      if (op === '~') return $S.node('not', [a]);
      if (op === '-') return $S.node('sub', [0, a]);
      if (op === '+') return a;
      if (op === 'typeof') return 'number';
    }
    if (op === 'typeof' && (a instanceof SymStrParts || a instanceof SymChar || a instanceof SymAscii)) return 'string';
    if (op === 'typeof' && a instanceof SymTA) return 'object';
    throw new Unmodelled(`unary operator ${op} on ${desc(a)}`);
  },
  typeofIdent(thunk) { try { return $S.un('typeof', thunk()); } catch (e) { if (e instanceof ReferenceError) return 'undefined'; throw e; } },
  truthy(x) { if (!isSym(x)) return !!x; if (x instanceof SymTA) return true; throw new Unmodelled('truthiness of ' + desc(x)); },
  and(a, thunk) { return $S.truthy(a) ? thunk() : a; },
  or(a, thunk) { return $S.truthy(a) ? a : thunk(); },
  nullish(a, thunk) { return a === null || a === undefined ? thunk() : a; },
  sw(d, cases) { if (!isSym(d)) return d; throw new Unmodelled('switch on ' + desc(d)); },
  get(o, k) {
    if (o instanceof SymTA) { if (isSym(k)) throw new Unmodelled('symbolic index into typed array'); return typeof k === 'number' || /^\d+$/.test(String(k)) ? o.load(Number(k)) : o[k]; }
    if (typeof o === 'string' && k instanceof SymNum) return new SymChar(o, k);
    if (isSym(k) || isSymPrim(o)) throw new Unmodelled(`property read ${desc(o)}[${desc(k)}]`);
    return o[k];
  },
  set(o, k, v) {
    if (o instanceof SymTA) { if (isSym(k)) throw new Unmodelled('symbolic index into typed array'); if (typeof k === 'number') { o.store(k, v); return v; } o[k] = v; return v; }
    if (isSym(k)) throw new Unmodelled('property write with symbolic key');
    if (isSym(v) && ArrayBuffer.isView(o)) throw new Unmodelled('symbolic value stored into a native typed array');
    o[k] = v;
    return v;
  },
  new(C, args) {
    if (st.symbolicTypedArrays && (C === Uint8Array || C === Uint32Array)) {
      if (args.length > 1) throw new Unmodelled('typed array over a buffer');
      return SymTA.make(C === Uint8Array ? 'u8' : 'u32', args.length ? args[0] : 0);
    }
    if (args.some(isSym) && (C === Uint8Array || C === Uint32Array)) throw new Unmodelled('native typed array from symbolic data');
    return new C(...args);
  },
  call(f, args) {
    if (args.some(isSym)) {
      if (f === String && args[0] instanceof SymAscii) return args[0];
      if (f === Number || f === String || f === Boolean || f === BigInt || f === parseInt || f === parseFloat || f === isNaN || f === isFinite)
        throw new Unmodelled('builtin ' + f.name + ' on symbolic argument');
    }
    return f(...args);
  },
  mcall(o, m, args) {
    if (st.symbolicTypedArrays) {
      if ((o === Uint8Array || o === Uint32Array) && m === 'of') return SymTA.make(o === Uint8Array ? 'u8' : 'u32', args);
      if ((o === Uint8Array || o === Uint32Array) && m === 'from') return SymTA.make(o === Uint8Array ? 'u8' : 'u32', args[0]);
      if (o instanceof TextEncoder && m === 'encode') {
        if (args[0] instanceof SymAscii) return new SymTA('u8', args[0].chars.slice(), 0, args[0].length);
        return SymTA.make('u8', o.encode(args[0]));
      }
    }
    if (o === Math && args.some(isSym)) {
      if (m === 'floor' || m === 'ceil' || m === 'round' || m === 'trunc') return args[0];   // integer-valued terms only
      throw new Unmodelled('Math.' + m + ' on symbolic argument');
    }
    if ((o === Number || o === Object || o === Array || o === JSON) && args.some(isSym)) {
      if (o === Number && m === 'isNaN' && args[0] instanceof SymNum) return false;     // integer-valued terms are never NaN
      if (o === Number && (m === 'isFinite' || m === 'isInteger') && args[0] instanceof SymNum) return true;
      if (o === Object && m === 'is' && args[0] instanceof SymNum && Object.is(args[1], -0)) return false;
      throw new Unmodelled(`${o.name || 'builtin'}.${m} on symbolic argument`);
    }
    if (o === null || o === undefined) return o[m](...args);   // throws the native TypeError
    if (isSymPrim(o)) throw new Unmodelled(`method ${String(m)} on ${desc(o)}`);
    return o[m](...args);
  },
  tpl(quasis, exprs) {
    if (!exprs.some(isSym)) { let s = quasis[0]; for (let i = 0; i < exprs.length; i++) s += String(exprs[i]) + quasis[i + 1]; return s; }
    throw new Unmodelled('template literal with symbolic part');
  },
};

function isSymPrim(x) { return x instanceof SymNum || x instanceof SymChar || x instanceof SymStrParts || x instanceof SymAscii; }
function isSym(x) { return isSymPrim(x); }
function desc(x) { return x === null ? 'null' : isSym(x) ? x.constructor.name : typeof x; }

function nativeBin(op, a, b) {
  switch (op) {
    case '+': return a + b; case '-': return a - b; case '*': return a * b; case '/': return a / b; case '%': return a % b; case '**': return a ** b;
    case '&': return a & b; case '|': return a | b; case '^': return a ^ b; case '<<': return a << b; case '>>': return a >> b; case '>>>': return a >>> b;
    case '==': return a == b; case '!=': return a != b; case '===': return a === b; case '!==': return a !== b;
    case '<': return a < b; case '<=': return a <= b; case '>': return a > b; case '>=': return a >= b;
    case 'instanceof': return a instanceof b; case 'in': return a in b;
    default: throw new Unmodelled('operator ' + op);
  }
}
function nativeUn(op, a) {
  switch (op) {
    case '!': return !a; case '-': return -a; case '+': return +a; case '~': return ~a; case 'typeof': return typeof a; case 'void': return undefined;
    default: throw new Unmodelled('unary ' + op);
  }
}
globalThis.$S = $S;
