"""Shared plumbing of every check: paths, building the encodings from /repo's working tree, evidence files,
known findings, the VIOLATION / KNOWN-FINDING protocol."""
import json, os, subprocess, sys, time, hashlib, shutil

VERIF = os.path.dirname(os.path.dirname(os.path.abspath(__file__)))
REPO = os.environ.get('VERIF_REPO', '/repo')
BUILD = os.path.join(VERIF, 'build')
EVID = os.environ.get('VERIF_EVIDENCE_DIR') or os.path.join(VERIF, 'evidence')   # seed-matrix runs write elsewhere
REPLAYS = os.path.join(VERIF, 'replays')
NIGHTLY = 'nightly'

ENV = dict(os.environ)
ENV.update({'CARGO_NET_OFFLINE': 'true', 'GOPROXY': 'off', 'PIP_NO_INDEX': '1'})


class Inconclusive(Exception):
    pass


def seed():
    try:
        return int(os.environ.get('VERIF_SEED', '0'))
    except ValueError:
        return 0


def sh(cmd, cwd=None, env=None, timeout=None, check=True, capture=True):
    e = dict(ENV)
    if env:
        e.update(env)
    r = subprocess.run(cmd, cwd=cwd, env=e, shell=isinstance(cmd, str), timeout=timeout,
                       stdout=subprocess.PIPE if capture else None, stderr=subprocess.STDOUT if capture else None, text=True)
    if check and r.returncode != 0:
        raise Inconclusive(f'command failed ({r.returncode}): {cmd}\n{(r.stdout or "")[-3000:]}')
    return r


def tree_hash(paths):
    """hash of file contents under the given repo-relative paths (to decide whether a cached encoding is fresh)"""
    h = hashlib.sha256()
    for p in paths:
        full = os.path.join(REPO, p)
        if os.path.isdir(full):
            for dp, dn, fs in os.walk(full):
                dn.sort()
                for f in sorted(fs):
                    fp = os.path.join(dp, f)
                    h.update(fp.encode())
                    with open(fp, 'rb') as fh:
                        h.update(fh.read())
        elif os.path.exists(full):
            h.update(full.encode())
            with open(full, 'rb') as fh:
                h.update(fh.read())
    return h.hexdigest()


def mir_dump(crate='beff-core'):
    """(re)generate the MIR text dump of the crate from /repo's current working tree.  The dump is cached under
    build/ keyed by a hash of the crate sources, so an edited tree always gets a fresh encoding."""
    os.makedirs(BUILD, exist_ok=True)
    if crate == 'beff-core':
        srcs = ['packages/beff-core/src', 'packages/beff-core/Cargo.toml', 'Cargo.lock']
        cwd = os.path.join(REPO, 'packages/beff-core')
        extra = ['--lib']
    else:
        srcs = ['packages/beff-core/src', 'packages/beff-wasm/src', 'packages/beff-wasm/Cargo.toml', 'Cargo.lock']
        cwd = os.path.join(REPO, 'packages/beff-wasm')
        extra = ['--lib', '--crate-type', 'rlib']
    hsh = tree_hash(srcs)
    out = os.path.join(BUILD, f'{crate}.mir')
    stamp = out + '.hash'
    if os.path.exists(out) and os.path.exists(stamp) and open(stamp).read() == hsh and os.path.getsize(out) > 1000:
        return out
    tdir = os.path.join(BUILD, 'mir-target')
    # force rustc to run again for the crate even when cargo thinks it is fresh
    fp = os.path.join(tdir, 'debug', '.fingerprint')
    if os.path.isdir(fp):
        for d in os.listdir(fp):
            if d.startswith(crate.replace('-', '_') + '-') or d.startswith(crate + '-'):
                shutil.rmtree(os.path.join(fp, d), ignore_errors=True)
    t0 = time.time()
    feat = []
    cmd = ['cargo', '+' + NIGHTLY, 'rustc', '--offline'] + extra + feat + ['--', '-Zunpretty=mir', '-C', 'debug-assertions=off',
                                                                          '-C', 'overflow-checks=on']
    e = dict(ENV)
    e['CARGO_TARGET_DIR'] = tdir
    r = subprocess.run(cmd, cwd=cwd, env=e, stdout=subprocess.PIPE, stderr=subprocess.PIPE, text=True)
    if r.returncode != 0 or len(r.stdout) < 1000:
        raise Inconclusive('MIR dump failed:\n' + r.stderr[-3000:])
    with open(out, 'w') as fh:
        fh.write(r.stdout)
    with open(stamp, 'w') as fh:
        fh.write(hsh)
    return out


# ---------------------------------------------------------------------------------------- findings
def load_known():
    p = os.path.join(VERIF, 'known_findings.json')
    if not os.path.exists(p):
        return []
    return json.load(open(p)).get('findings', [])


class Report:
    """collects violations of one run, matches them against known_findings.json, prints protocol lines"""

    def __init__(self, pid, tier):
        self.pid = pid
        self.tier = tier
        self.t0 = time.time()
        self.violations = []     # dicts {key, what, replay}
        self.known_hit = []
        self.inconclusive = []
        self.known = [k for k in load_known() if k.get('property') == pid and k.get('status', 'open') == 'open']

    def violation(self, key, what, replay_obj):
        """key: role-based signature of the failing construct; replay_obj is written to replays/<pid>/"""
        for k in self.known:
            if k['key'] == key:
                if key not in [x['key'] for x in self.known_hit]:
                    self.known_hit.append({'key': key, 'what': k.get('what', what)})
                return
        os.makedirs(os.path.join(REPLAYS, self.pid), exist_ok=True)
        name = hashlib.sha1(key.encode()).hexdigest()[:12] + '.json'
        path = os.path.join(REPLAYS, self.pid, name)
        with open(path, 'w') as fh:
            json.dump({'property': self.pid, 'key': key, 'what': what, 'replay': replay_obj}, fh, indent=1, default=str)
        if key not in [v['key'] for v in self.violations]:
            self.violations.append({'key': key, 'what': what, 'replay': path})

    def note_inconclusive(self, why):
        self.inconclusive.append(why)

    def finish(self, level, coverage, assumptions):
        wall = time.time() - self.t0
        os.makedirs(EVID, exist_ok=True)
        coverage = dict(coverage)
        coverage.setdefault('known_findings_hit', [k['key'] for k in self.known_hit])
        if self.inconclusive:
            coverage['inconclusive'] = self.inconclusive[:20]
        ev = {'property_id': self.pid, 'tier': self.tier, 'seed': seed(), 'level': level, 'coverage': coverage,
              'assumptions': assumptions, 'wall_s': round(wall, 2), 'violations': len(self.violations)}
        with open(os.path.join(EVID, self.pid + '.json'), 'w') as fh:
            json.dump(ev, fh, indent=1, default=str)
        for k in self.known_hit:
            print(f"KNOWN-FINDING: property={self.pid} {k['what']}")
        for v in self.violations:
            print(f"VIOLATION property={self.pid} replay={v['replay']}")
            print(f"  what: {v['what']}")
            print(f"  key: {v['key']}")
        if self.violations:
            return 1
        if self.inconclusive:
            for w in self.inconclusive[:10]:
                print(f"INCONCLUSIVE property={self.pid}: {w}")
            return 2
        print(f"OK property={self.pid} tier={self.tier} wall={wall:.1f}s")
        return 0


# ---------------------------------------------------------------------------------------- beffdrv
_DRV_BUILT = {}


def beffdrv_build(profile='dev'):
    """build the native driver against /repo's current working tree (cargo decides what is stale)"""
    if profile in _DRV_BUILT:
        return _DRV_BUILT[profile]
    src = os.path.join(VERIF, 'beffdrv')
    # keep the lock file in step with the repository's
    try:
        shutil.copyfile(os.path.join(REPO, 'Cargo.lock'), os.path.join(src, 'Cargo.lock'))
    except OSError:
        pass
    cmd = ['cargo', 'build', '--offline'] + (['--release'] if profile == 'release' else [])
    r = sh(cmd, cwd=src, env={'CARGO_TARGET_DIR': os.path.join(BUILD, 'drv-target')}, timeout=1800)
    exe = os.path.join(BUILD, 'drv-target', 'release' if profile == 'release' else 'debug', 'beffdrv')
    if not os.path.exists(exe):
        raise Inconclusive('beffdrv did not build: ' + (r.stdout or '')[-2000:])
    _DRV_BUILT[profile] = exe
    return exe


def beffdrv(cmd, obj, profile='dev', timeout=120):
    exe = beffdrv_build(profile)
    r = subprocess.run([exe, cmd], input=json.dumps(obj), stdout=subprocess.PIPE, stderr=subprocess.PIPE, text=True,
                       timeout=timeout, env=ENV)
    if r.returncode != 0:
        return {'crash': True, 'returncode': r.returncode, 'stderr': r.stderr[-2000:]}
    try:
        return json.loads(r.stdout.strip().split('\n')[-1])
    except Exception:
        return {'crash': True, 'stdout': r.stdout[-2000:], 'stderr': r.stderr[-2000:]}
