// Native replay of watch-mode histories against the REAL session code of beff-wasm (lib.rs + module_resolver.rs, see build.rs), driven through
// its public entry points: only the three JavaScript host imports are replaced by an in-memory disk, and JsValue by a plain-Rust stand-in.  BUNDLER is thread local, so "a fresh process" is a fresh thread.
// stdin: {"entry": name, "initial": {file: content}, "steps": [["update", f, c] | ["create", f, c] | ["rebuild"]]}
// stdout: {"rebuilds": [{"step": i, "watch": text, "fresh": text, "equal": bool}]}
#![allow(dead_code, unused_imports)]
#[macro_use]
extern crate lazy_static;

#[path = "/repo/packages/beff-wasm/src/module_resolver.rs"]
mod module_resolver;
#[path = "/repo/packages/beff-wasm/src/utils.rs"]
mod utils;

/// the two constructors of wasm_bindgen::JsValue that the session code uses (the real ones abort on a native target)
#[derive(Clone, Debug, PartialEq)]
pub struct JsValue(pub Option<String>);
impl JsValue {
    pub fn from_str(s: &str) -> JsValue { JsValue(Some(s.to_string())) }
    pub fn undefined() -> JsValue { JsValue(None) }
}

include!(concat!(env!("OUT_DIR"), "/lib_native.rs"));

thread_local! {
    static DISK: RefCell<std::collections::BTreeMap<String, String>> = RefCell::new(Default::default());
    static EMITTED: RefCell<Vec<String>> = RefCell::new(vec![]);
    static ENTRY: RefCell<String> = RefCell::new("entry.ts".to_string());
}
/// host: tsc module resolution, here `./x` -> `x.ts` when that file exists
fn resolve_import(_current_file: &str, specifier: &str) -> Option<String> {
    let name = format!("{}.ts", specifier.strip_prefix("./")?);
    DISK.with(|d| d.borrow().contains_key(&name)).then_some(name)
}
/// host: fs.readFileSync or undefined
fn read_file_content(file_name: &str) -> Option<String> {
    DISK.with(|d| d.borrow().get(file_name).cloned())
}
/// host: prints the diagnostics
fn emit_diagnostic(diag: JsValue) {
    EMITTED.with(|e| e.borrow_mut().push(diag.0.unwrap_or_else(|| "undefined".to_string())));
}

const SETTINGS: &str = r#"{"string_formats":[],"number_formats":[]}"#;

/// what the host does on every (re)build, through the PUBLIC entry points: diagnostics, then the bundle
fn rebuild() -> String {
    EMITTED.with(|e| e.borrow_mut().clear());
    let entry = ENTRY.with(|e| e.borrow().clone());
    let diags = bundle_to_diagnostics(&entry, SETTINGS);
    let code = bundle_to_string_v2(&entry, SETTINGS);
    let emitted = EMITTED.with(|e| e.borrow().join("\n"));
    format!(
        "DIAGNOSTICS {}\nCODE {}\nEMITTED {}",
        diags.0.unwrap_or_else(|| "undefined".to_string()),
        code.0.unwrap_or_else(|| "undefined".to_string()),
        emitted
    )
}
fn fresh_process_rebuild(disk: std::collections::BTreeMap<String, String>) -> String {
    let entry = ENTRY.with(|e| e.borrow().clone());
    std::thread::spawn(move || {
        ENTRY.with(|e| *e.borrow_mut() = entry);
        DISK.with(|d| *d.borrow_mut() = disk);
        rebuild()
    })
    .join()
    .unwrap_or_else(|_| "PANIC".to_string())
}

fn main() {
    use std::io::Read;
    let mut inp = String::new();
    std::io::stdin().read_to_string(&mut inp).unwrap();
    let job: serde_json::Value = serde_json::from_str(&inp).expect("job json");
    if let Some(e) = job["entry"].as_str() {
        ENTRY.with(|x| *x.borrow_mut() = e.to_string());
    }
    if let Some(m) = job["initial"].as_object() {
        DISK.with(|d| {
            for (k, v) in m { d.borrow_mut().insert(k.clone(), v.as_str().unwrap().to_string()); }
        });
    }
    let mut out = vec![];
    for (i, step) in job["steps"].as_array().unwrap().iter().enumerate() {
        let kind = step[0].as_str().unwrap();
        match kind {
            "update" | "create" => {
                let f = step[1].as_str().unwrap();
                let c = step[2].as_str().unwrap();
                DISK.with(|d| d.borrow_mut().insert(f.to_string(), c.to_string()));
                if kind == "update" { update_file_content(f, c); }
            }
            "rebuild" => {
                let watch = std::panic::catch_unwind(rebuild).unwrap_or_else(|_| "PANIC".to_string());
                let fresh = fresh_process_rebuild(DISK.with(|d| d.borrow().clone()));
                out.push(serde_json::json!({"step": i, "equal": watch == fresh, "watch": watch, "fresh": fresh}));
            }
            _ => panic!("unknown step"),
        }
    }
    println!("{}", serde_json::json!({"rebuilds": out}));
}
