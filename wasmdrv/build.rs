// Generates lib_native.rs: /repo/packages/beff-wasm/src/lib.rs verbatim, minus the crate-level `extern crate` / `mod` lines (declared in
// main.rs) and minus the three `#[wasm_bindgen] extern "C" { fn ...; }` host-import blocks (they abort on native targets; main.rs provides
// in-memory replacements with the same signatures).  Nothing else of the session code is touched.
use std::{env, fs, path::PathBuf};
fn main() {
    let repo = env::var("VERIF_REPO").unwrap_or_else(|_| "/repo".to_string());
    let src = format!("{repo}/packages/beff-wasm/src/lib.rs");
    println!("cargo:rerun-if-changed={src}");
    println!("cargo:rerun-if-changed={repo}/packages/beff-wasm/src/module_resolver.rs");
    println!("cargo:rerun-if-env-changed=VERIF_REPO");
    let text = fs::read_to_string(&src).expect("lib.rs");
    let mut out = String::new();
    let mut held: Option<String> = None;
    let mut skipping = false;
    for line in text.lines() {
        if skipping {
            if line == "}" { skipping = false; }
            continue;
        }
        if line == "#[macro_use]" || line == "extern crate lazy_static;" || line == "mod module_resolver;" || line == "mod utils;" { continue; }
        if line == "#[wasm_bindgen]" { held = Some(line.to_string()); continue; }
        if held.is_some() && line == "extern \"C\" {" { held = None; skipping = true; continue; }
        if let Some(h) = held.take() { out.push_str(&h); out.push('\n'); }
        out.push_str(line);
        out.push('\n');
    }
    let dst = PathBuf::from(env::var("OUT_DIR").unwrap()).join("lib_native.rs");
    fs::write(dst, out).unwrap();
}
