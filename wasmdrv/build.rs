// Generates lib_native.rs: /repo/packages/beff-wasm/src/lib.rs verbatim, minus the crate-level `extern crate` / `mod` lines (declared in
// main.rs), minus the `#[wasm_bindgen]` attributes and the two `use wasm_bindgen::...` lines (main.rs provides a plain-Rust `JsValue` with the
// two constructors the session code uses, so that the PUBLIC entry points bundle_to_string_v2 / bundle_to_diagnostics / update_file_content
// run natively) and minus the three `extern "C" { fn ...; }` host-import blocks (main.rs provides in-memory replacements with the same
// signatures).  Nothing else of the session code is touched.
use std::{env, fs, path::PathBuf};
fn main() {
    let repo = env::var("VERIF_REPO").unwrap_or_else(|_| "/repo".to_string());
    let src = format!("{repo}/packages/beff-wasm/src/lib.rs");
    println!("cargo:rerun-if-changed={src}");
    println!("cargo:rerun-if-changed={repo}/packages/beff-wasm/src/module_resolver.rs");
    println!("cargo:rerun-if-env-changed=VERIF_REPO");
    let text = fs::read_to_string(&src).expect("lib.rs");
    let mut out = String::new();
    let mut skipping = false;
    for line in text.lines() {
        if skipping {
            if line == "}" { skipping = false; }
            continue;
        }
        if line == "#[macro_use]" || line == "extern crate lazy_static;" || line == "mod module_resolver;" || line == "mod utils;" { continue; }
        if line == "use wasm_bindgen::JsValue;" || line == "use wasm_bindgen::prelude::wasm_bindgen;" || line == "use wasm_bindgen::prelude::*;" { continue; }
        if line.trim() == "#[wasm_bindgen]" { continue; }
        if line == "extern \"C\" {" { skipping = true; continue; }
        out.push_str(line);
        out.push('\n');
    }
    let dst = PathBuf::from(env::var("OUT_DIR").unwrap()).join("lib_native.rs");
    fs::write(dst, out).unwrap();
}
