"""MIR text-dump front end: splits `-Zunpretty=mir` output into functions / basic blocks, parses places,
operands, and indexes functions by (impl kind, self type, trait, method) using the impl spans and the
real source text under /repo.  Nothing here is specific to one property."""
import re, os

REPO = os.environ.get('VERIF_REPO', '/repo')


def split_functions(text):
    fns = {}
    cur = None
    buf = []
    for line in text.split('\n'):
        if cur is None:
            name = None
            if line.startswith('fn ') and line.endswith('{'):
                m = re.search(r'\((_1: |\) -> )', line)
                if m:
                    name = line[3:m.start()]
            elif line.startswith('const ') and 'promoted[' in line and line.endswith('{'):
                name = line[len('const '):].split(']: ')[0] + ']'
            elif line.startswith('const ') and line.endswith('= {'):
                name = 'const-item ' + line[len('const '):].split(': ')[0]
            if name is not None:
                cur = name
                buf = [line]
        else:
            buf.append(line)
            if line == '}':
                fns[cur] = buf
                cur = None
    return fns


def split_top(s, sep=','):
    out = []
    depth = 0
    cur = ''
    i = 0
    n = len(s)
    while i < n:
        c = s[i]
        if c == '"':
            j = i + 1
            while j < n and s[j] != '"':
                if s[j] == '\\':
                    j += 1
                j += 1
            cur += s[i:j + 1]
            i = j + 1
            continue
        if c in '(<[{':
            depth += 1
        elif c in ')]}':
            depth -= 1
        elif c == '>' and not (i > 0 and s[i - 1] in '-='):
            depth -= 1
        if c == sep and depth == 0:
            out.append(cur)
            cur = ''
        else:
            cur += c
        i += 1
    if cur.strip():
        out.append(cur)
    return [x.strip() for x in out]


class P:
    __slots__ = ('kind', 'a')

    def __init__(s, kind, *a):
        s.kind = kind
        s.a = a

    def __repr__(s):
        return f"{s.kind}{s.a}"


def skip_type(src, i):
    depth = 0
    while i < len(src):
        c = src[i]
        if c in '(<[{':
            depth += 1
        elif c in ')]}' or (c == '>' and src[i - 1] not in '-='):
            if depth == 0:
                return i
            depth -= 1
        i += 1
    return i


_place_cache = {}


def parse_place(src):
    if src in _place_cache:
        return _place_cache[src]
    node, i = _parse_place(src, 0)
    if i != len(src):
        raise Exception('place trailing: ' + src)
    _place_cache[src] = node
    return node


def _parse_place(src, i):
    if src[i] == '_':
        m = re.match(r'_(\d+)', src[i:])
        node = P('local', int(m.group(1)))
        i += m.end()
    elif src[i] == '(':
        i += 1
        if src[i] == '*':
            inner, i = _parse_place(src, i + 1)
            node = P('deref', inner)
            assert src[i] == ')', src[i:]
            i += 1
        else:
            inner, i = _parse_place(src, i)
            if src[i:i + 4] == ' as ':
                m = re.match(r' as (\w+)\)', src[i:])
                node = P('downcast', inner, m.group(1))
                i += m.end()
            elif src[i] == '.':
                m = re.match(r'\.(\d+): ', src[i:])
                idx = int(m.group(1))
                i += m.end()
                t0 = i
                i = skip_type(src, i)
                assert src[i] == ')', src
                node = P('field', inner, idx, src[t0:i])
                i += 1
            else:
                raise Exception('place? ' + src + ' @' + src[i:])
    elif src[i] == '*':
        inner, i = _parse_place(src, i + 1)
        node = P('deref', inner)
    else:
        raise Exception('place?? ' + src)
    # postfix: [idx] / [_n] / constant index
    while i < len(src) and src[i] == '[':
        m = re.match(r'\[_(\d+)\]', src[i:])
        if m:
            node = P('index', node, ('local', int(m.group(1))))
            i += m.end()
            continue
        m = re.match(r'\[(\d+) of (\d+)\]', src[i:])
        if m:
            node = P('index', node, ('const', int(m.group(1))))
            i += m.end()
            continue
        m = re.match(r'\[-(\d+) of (\d+)\]', src[i:])
        if m:
            node = P('index', node, ('const_end', int(m.group(1))))
            i += m.end()
            continue
        m = re.match(r'\[(\d+):\]', src[i:])
        if m:
            node = P('subslice', node, int(m.group(1)), 0)
            i += m.end()
            continue
        raise Exception('index? ' + src[i:])
    return node, i


def parse_operand(s):
    s = s.strip()
    if s.startswith('no_retag '):
        s = s[len('no_retag '):]
    if s.startswith('copy ') or s.startswith('move '):
        return ('place', parse_place(s[5:]))
    if s.startswith('const '):
        return ('const', s[6:])
    if re.match(r'^[A-Za-z_<][\w:<>, &\[\]\'{}#@./()-]*$', s):
        return ('const', s)            # bare fn item used as an operand (e.g. `Option::map(move _1, BffFileName::new)`)
    raise Exception('operand? ' + s)


class Fn:
    def __init__(self, name, lines):
        self.name = name
        hdr = lines[0]
        self.header = hdr
        self.arg_types = []
        self.ret_type = None
        self.local_types = {}
        if hdr.startswith('fn '):
            m = re.search(r'\((_1: |\) -> )', hdr)
            rest = hdr[m.start() + 1:]
            # rest: "_1: T, _2: U) -> R {"
            depth = 0
            end = None
            for k, c in enumerate(rest):
                if c in '(<[{':
                    depth += 1
                elif c in ')]}' or (c == '>' and rest[k - 1] not in '-='):
                    if depth == 0:
                        end = k
                        break
                    depth -= 1
            args = rest[:end]
            for a in split_top(args):
                mm = re.match(r'_(\d+): (.*)$', a)
                self.arg_types.append(mm.group(2))
                self.local_types[int(mm.group(1))] = mm.group(2)
            self.ret_type = rest[end + len(') -> '):-2].strip()
        self.nargs = len(self.arg_types)
        self.blocks = {}
        self.cleanup = set()
        cur = None
        for l in lines[1:]:
            s = l.strip()
            m = re.match(r'^let (mut )?_(\d+): (.*);$', s)
            if m and cur is None:
                self.local_types[int(m.group(2))] = m.group(3)
                continue
            m = re.match(r'^bb(\d+)( \(cleanup\))?: \{$', s)
            if m:
                cur = int(m.group(1))
                self.blocks[cur] = []
                if m.group(2):
                    self.cleanup.add(cur)
                continue
            if cur is None:
                continue
            if s == '}':
                cur = None
                continue
            if s:
                self.blocks[cur].append(s)
        self.parsed_blocks = {}


def norm_type(t):
    """normalise a type string for impl lookup: strip module paths, lifetimes, Lrc->Rc, spaces"""
    t = t.strip()
    t = re.sub(r"'\w+\s*", '', t)
    t = re.sub(r'\b(?:[a-z_][a-z0-9_]*::)+', '', t)   # module paths (lower-case segments)
    t = t.replace('Lrc<', 'Rc<')
    t = re.sub(r'\s+', '', t)
    return t


class Index:
    """index of the functions of one MIR dump"""

    def __init__(self, mir_text, crate_src_root):
        self.fns_raw = split_functions(mir_text)
        self.parsed = {}
        self.src_root = crate_src_root
        self._src_cache = {}
        self.inherent = {}     # (TypeBase, method) -> fn name
        self.traitimpl = {}    # (Trait, TypeNorm, method) -> fn name
        self.free = {}         # name (last segment and full) -> fn name
        self.impl_info = {}    # fn name -> (trait or None, self type)
        self.aliases = {}
        for dp, _, fs in os.walk(crate_src_root):
            for f in fs:
                if f.endswith('.rs'):
                    for mm in re.finditer(r'^\s*(?:pub(?:\([a-z]+\))?\s+)?type\s+(\w+)\s*=\s*(\w+)\s*;', open(os.path.join(dp, f)).read(), re.M):
                        self.aliases[mm.group(1)] = mm.group(2)
        self.closures = {}     # closure span text -> fn name
        for name in self.fns_raw:
            if '{closure#' in name and 'promoted[' not in name:
                mm = re.search(r'\(_1: &?(?:mut )?\{closure@([^}]*)\}', self.fns_raw[name][0])
                if mm:
                    self.closures[mm.group(1)] = name
            if 'promoted[' in name or '{closure' in name or '{constant' in name:
                continue
            m = re.match(r'^(.*?)<impl at ([^>]*?):(\d+):(\d+): (\d+):(\d+)>::(\w+)$', name)
            if m:
                path, l1, c1, l2, c2, meth = m.group(2), int(m.group(3)), int(m.group(4)), int(m.group(5)), int(m.group(6)), m.group(7)
                tr, ty = self._impl_header(path, l1, c1, l2, c2)
                if ty is None:
                    continue
                ty = re.sub(r'\b(\w+)\b', lambda mm: self.aliases.get(mm.group(1), mm.group(1)), ty)
                self.impl_info[name] = (tr, ty)
                if tr is None:
                    self.inherent[(norm_type(ty).split('<')[0], meth)] = name
                else:
                    self.traitimpl[(tr, norm_type(ty), meth)] = name
            elif '<impl' not in name:
                self.free[name] = name
                self.free.setdefault(name.split('::')[-1], name)

    def _lines(self, path):
        if path not in self._src_cache:
            p = os.path.join(REPO, path)
            self._src_cache[path] = open(p).read().split('\n')
        return self._src_cache[path]

    def _impl_header(self, path, l1, c1, l2, c2):
        try:
            lines = self._lines(path)
        except OSError:
            return None, None
        if l1 == l2:
            text = lines[l1 - 1][c1 - 1:c2 - 1]
        else:
            text = ' '.join([lines[l1 - 1][c1 - 1:]] + lines[l1:l2 - 1] + [lines[l2 - 1][:c2 - 1]])
        text = text.strip()
        if text.startswith('impl'):
            t = re.sub(r'^impl(<[^>]*>)?\s*', '', text)
            if ' for ' in t:
                tr, ty = t.split(' for ', 1)
                return tr.strip().split('<')[0], ty.strip()
            return None, t.strip()
        # derive: text is the trait name inside #[derive(...)]; the type is the next struct/enum item
        tr = text
        for k in range(l1 - 1, min(l1 + 12, len(lines))):
            mm = re.match(r'^\s*(pub(\([a-z]+\))?\s+)?(struct|enum)\s+(\w+)', lines[k])
            if mm:
                return tr, mm.group(4)
        return None, None

    def get(self, name):
        if name not in self.parsed:
            self.parsed[name] = Fn(name, self.fns_raw[name])
        return self.parsed[name]

    def has(self, name):
        return name in self.fns_raw


# ---------------------------------------------------------------------------------------------------
# enum / struct layouts from the crate source (variant order, explicit discriminants, named fields)

class Layouts:
    def __init__(self):
        self.enums = {}    # name -> list of (variant, discr, field_names or None)
        self.structs = {}  # name -> field names (or count for tuple structs)

    def load_dir(self, root):
        for dp, _, fs in os.walk(root):
            for f in fs:
                if f.endswith('.rs'):
                    self.load_text(open(os.path.join(dp, f)).read())

    def load_text(self, text):
        text = re.sub(r'//[^\n]*', '', text)
        for m in re.finditer(r'\benum\s+(\w+)\s*(<[^>{]*>)?\s*\{', text):
            body, _ = self._balanced(text, m.end() - 1)
            body = body.replace('<<', ' SHL ')
            variants = []
            nxt = 0
            for item in split_top(body[1:-1]):
                item = re.sub(r'#\[[^\]]*\]', '', item).strip()
                if not item:
                    continue
                mm = re.match(r'^(\w+)\s*(\{.*\}|\(.*\))?\s*(=\s*(.*))?$', item, re.S)
                if not mm:
                    continue
                vname = mm.group(1)
                fields = None
                if mm.group(2) and mm.group(2).startswith('{'):
                    fields = []
                    for fld in split_top(mm.group(2)[1:-1]):
                        fld = re.sub(r'#\[[^\]]*\]', '', fld).strip()
                        if fld:
                            fields.append(re.sub(r'^pub(\([a-z]+\))?\s+', '', fld).split(':')[0].strip())
                if mm.group(4):
                    try:
                        nxt = eval(mm.group(4).strip().replace(' SHL ', '<<'), {'__builtins__': {}})
                    except Exception:
                        pass
                variants.append((vname, nxt, fields))
                nxt += 1
            self.enums.setdefault(m.group(1), variants)
        for m in re.finditer(r'\bstruct\s+(\w+)\s*(<[^>{(]*>)?\s*\{', text):
            body, _ = self._balanced(text, m.end() - 1)
            fields = []
            for fld in split_top(body[1:-1]):
                fld = re.sub(r'#\[[^\]]*\]', '', fld).strip()
                if fld:
                    fields.append(re.sub(r'^pub(\([a-z]+\))?\s+', '', fld).split(':')[0].strip())
            self.structs.setdefault(m.group(1), fields)

    @staticmethod
    def _balanced(text, i):
        depth = 0
        j = i
        while j < len(text):
            if text[j] == '{':
                depth += 1
            elif text[j] == '}':
                depth -= 1
                if depth == 0:
                    return text[i:j + 1], j + 1
            j += 1
        return text[i:], len(text)
