"""mirsym — a bounded, forking symbolic executor for the subset of rustc MIR that beff-core's
subtyping algebra compiles to.  Scalars may be z3 terms; shapes (enum variants, vector lengths) are
concrete on each path and explored by re-execution under a decision prefix; every symbolic branch is
checked for feasibility by z3.  Calls are resolved to (1) a harness contract, (2) the MIR body of the
crate function, (3) an entry of the std model table below; anything else raises Unmodelled, which the
harness must report as inconclusive."""
import re, time, itertools
import z3
from .mir import P, parse_place, parse_operand, split_top, norm_type, Fn


class Abort(Exception):
    """path infeasible"""


class Unmodelled(Exception):
    pass


class OtherShard(Exception):
    pass


class BoundHit(Exception):
    pass


class Panic(Exception):
    """the executed code panics on this path"""

    def __init__(self, msg, st=None):
        Exception.__init__(self, msg)
        self.msg = msg


# ------------------------------------------------------------------------------------------ values
class Cell:
    __slots__ = ('v',)

    def __init__(s, v=None):
        s.v = v


class Ptr:
    __slots__ = ('cell', 'path')

    def __init__(s, cell, path=()):
        s.cell = cell
        s.path = path

    def __repr__(s):
        return f"Ptr({s.cell.v!r},{s.path})"


class Adt:
    __slots__ = ('ty', 'variant', 'fields')

    def __init__(s, ty, variant, fields):
        s.ty = ty
        s.variant = variant
        s.fields = fields

    def __repr__(s):
        return f"{s.ty}::{s.variant}{s.fields}" if s.variant else f"{s.ty}{s.fields}"


class SymEnum:
    """field-less enum whose discriminant is a z3 term"""
    __slots__ = ('ty', 'd')

    def __init__(s, ty, d):
        s.ty = ty
        s.d = d

    def __repr__(s):
        return f"{s.ty}#{s.d}"


class Tup:
    __slots__ = ('xs',)

    def __init__(s, xs):
        s.xs = list(xs)

    def __repr__(s):
        return f"Tup{s.xs}"


class RcV:
    __slots__ = ('cell',)

    def __init__(s, cell):
        s.cell = cell

    def __repr__(s):
        return f"Rc({s.cell.v!r})"


class VecV:
    __slots__ = ('items', 'elem_ty')

    def __init__(s, items, elem_ty=None):
        s.items = items
        s.elem_ty = elem_ty

    def __repr__(s):
        return f"Vec{s.items}"


class StrV:
    """string: concrete python str, or opaque with a symbolic id (total order = order of ids)"""
    __slots__ = ('s', 'id')

    def __init__(s, text=None, id=None):
        s.s = text
        s.id = id

    def __repr__(s):
        return f"Str({s.s if s.s is not None else s.id})"


class SliceIter:
    __slots__ = ('vec', 'i', 'end', 'enumerate', 'rev')

    def __init__(s, vec, i=0, end=None):
        s.vec = vec
        s.i = i
        s.end = end
        s.enumerate = False
        s.rev = False


class FnPtr:
    __slots__ = ('name',)

    def __init__(s, name):
        s.name = name


class Lazy:
    """content of a cell that is initialised on first inspection (one level)"""

    def force(self, st, cell):
        raise NotImplementedError


class ErrTok:
    """opaque anyhow::Error"""

    def __repr__(s):
        return 'anyhow::Error'


UNIT = Tup([])

STD_ENUMS = {
    'Option': [('None', 0, None), ('Some', 1, None)],
    'Result': [('Ok', 0, None), ('Err', 1, None)],
    'ControlFlow': [('Continue', 0, None), ('Break', 1, None)],
    'Ordering': [('Less', -1, None), ('Equal', 0, None), ('Greater', 1, None)],
}


def is_sym(v):
    return isinstance(v, z3.ExprRef)


def bvw(v):
    return v.size()


INT_W = {'u8': 8, 'u16': 16, 'u32': 32, 'u64': 64, 'u128': 128, 'usize': 64,
         'i8': 8, 'i16': 16, 'i32': 32, 'i64': 64, 'i128': 128, 'isize': 64, 'bool': 1, 'char': 32}


def is_signed(t):
    return t.startswith('i')


# ------------------------------------------------------------------------------------ exploration
class State:
    def __init__(s, prefix, ex):
        s.prefix = prefix
        s.ex = ex
        s.pc = []
        s.decisions = []
        s.pos = 0
        s.notes = []
        s.steps = 0
        s.obligations = []   # (label, z3 bool that must hold under pc)


class Explorer:
    """re-execution based DFS over decision sequences; counts feasibility queries"""

    def __init__(s, max_paths=200000, fuel=200000, shard=None, shard_depth=6):
        s.shard = shard          # (i, n): explore only the paths whose first shard_depth decisions hash to i mod n
        s.shard_depth = shard_depth
        s.other_shard = 0
        s.stack = [[]]
        s.paths = 0
        s.aborted = 0
        s.queries = 0
        s.solver_time = 0.0
        s.max_paths = max_paths
        s.fuel = fuel

    def run(s, body):
        results = []
        while s.stack:
            if s.paths + s.aborted > s.max_paths:
                raise BoundHit('max_paths')
            prefix = s.stack.pop()
            st = State(prefix, s)
            try:
                r = body(st)
                if s.shard and len(st.decisions) < s.shard_depth and s.shard[0] != 0:
                    s.other_shard += 1
                    continue
                results.append((st, r))
                s.paths += 1
            except Abort:
                s.aborted += 1
            except OtherShard:
                s.other_shard += 1
        return results


def choose(st, n, conds=None):
    """pick branch 0..n-1; conds[i] is the z3 condition of branch i (None = unconstrained)."""
    replay = st.pos < len(st.prefix)
    if replay:
        k = st.prefix[st.pos]
    else:
        k = 0
        for alt in range(n - 1, 0, -1):
            st.ex.stack.append(st.decisions[:st.pos] + [alt])
    st.decisions.append(k)
    st.pos += 1
    sh = st.ex.shard
    if sh and st.pos == st.ex.shard_depth:
        h = 0
        for d in st.decisions:
            h = (h * 31 + d + 7) % 1000003
        if h % sh[1] != sh[0]:
            raise OtherShard()
    if conds is not None and conds[k] is not None:
        c = conds[k]
        if c is True:
            return k
        if c is False:
            raise Abort()
        st.pc.append(c)
        # the final decision of a prefix is new and must be checked; earlier ones were feasible already
        if not replay or st.pos == len(st.prefix):
            t0 = time.time()
            sol = z3.Solver()
            sol.add(st.pc)
            r = sol.check()
            st.ex.queries += 1
            st.ex.solver_time += time.time() - t0
            if r == z3.unknown:
                raise Unmodelled('solver unknown on path feasibility')
            if r != z3.sat:
                raise Abort()
    return k


def sym_bool_branch(st, c):
    """returns python bool, forking on a z3 Bool"""
    c = z3.simplify(c)
    if z3.is_true(c):
        return True
    if z3.is_false(c):
        return False
    return choose(st, 2, [c, z3.Not(c)]) == 0


# ------------------------------------------------------------------------------------- the engine
class Frame:
    __slots__ = ('fn', 'locals')

    def __init__(s, fn):
        s.fn = fn
        s.locals = {}

    def cell(s, i):
        c = s.locals.get(i)
        if c is None:
            c = s.locals[i] = Cell(None)
        return c


class Engine:
    def __init__(self, index, layouts):
        self.ix = index
        self.lay = layouts
        self.contracts = {}      # resolved fn name -> python callable(st, args)
        self.call_contracts = {}  # call-site path (normalised) -> callable
        self.executed = {}       # fn name -> number of times executed (for the evidence)
        self.models_used = {}
        self.const_cache = {}
        self.max_depth = 400
        self.depth = 0

    # ---- layouts
    def variants(self, ty):
        base = ty.split('<')[0].split('::')[-1]
        if base in STD_ENUMS:
            return STD_ENUMS[base]
        if base in self.lay.enums:
            return self.lay.enums[base]
        raise Unmodelled('unknown enum ' + ty)

    def discr_of(self, v):
        if isinstance(v, SymEnum):
            return v.d
        if isinstance(v, Adt):
            for name, d, _ in self.variants(v.ty):
                if name == v.variant:
                    return d
            raise Unmodelled(f'variant {v.variant} of {v.ty}')
        raise Unmodelled(f'discriminant of {v!r}')

    # ---- memory
    def load(self, st, ptr):
        v = ptr.cell.v
        if ptr.path and isinstance(v, Lazy):
            v = v.force(st, ptr.cell)
        for step in ptr.path:
            v = self.project(st, v, step)
        return v

    def project(self, st, v, step):
        kind = step[0]
        if isinstance(v, Cell):   # element cells of vectors
            v = v.v
        if kind == 'field':
            if isinstance(v, Tup):
                return v.xs[step[1]]
            if isinstance(v, Adt):
                return v.fields[step[1]]
            if isinstance(v, RcV) and step[1] == 0:
                return v
            raise Unmodelled(f'field {step} of {v!r}')
        if kind == 'downcast':
            if not (isinstance(v, Adt) and v.variant == step[1]):
                raise Unmodelled(f'downcast {step} of {v!r}')
            return v
        if kind == 'index':
            if isinstance(v, VecV):
                return v.items[step[1]]
            raise Unmodelled(f'index of {v!r}')
        raise Unmodelled(str(step))

    def store(self, st, ptr, val):
        if not ptr.path:
            ptr.cell.v = val
            return
        v = ptr.cell.v
        if isinstance(v, Lazy):
            v = v.force(st, ptr.cell)
        for step in ptr.path[:-1]:
            v = self.project(st, v, step)
        last = ptr.path[-1]
        if last[0] == 'field':
            if isinstance(v, Tup):
                while len(v.xs) <= last[1]:
                    v.xs.append(None)
                v.xs[last[1]] = val
            elif isinstance(v, Adt):
                while len(v.fields) <= last[1]:
                    v.fields.append(None)
                v.fields[last[1]] = val
            else:
                raise Unmodelled(f'store field into {v!r}')
        elif last[0] == 'index':
            v.items[last[1]] = val
        else:
            raise Unmodelled(f'store {last}')

    def place_ptr(self, st, fr, pl):
        k = pl.kind
        if k == 'local':
            return Ptr(fr.cell(pl.a[0]))
        if k == 'deref':
            inner = self.load(st, self.place_ptr(st, fr, pl.a[0]))
            if isinstance(inner, Ptr):
                return inner
            if isinstance(inner, RcV):
                return Ptr(inner.cell)
            raise Unmodelled(f'deref of {inner!r}')
        if k == 'field':
            p = self.place_ptr(st, fr, pl.a[0])
            # uninitialised aggregate being built field by field
            if p.cell.v is None and not p.path:
                p.cell.v = Tup([])
            return Ptr(p.cell, p.path + (('field', pl.a[1]),))
        if k == 'downcast':
            p = self.place_ptr(st, fr, pl.a[0])
            return Ptr(p.cell, p.path + (('downcast', pl.a[1]),))
        if k == 'index':
            p = self.place_ptr(st, fr, pl.a[0])
            ix = pl.a[1]
            if ix[0] == 'local':
                i = self.concrete_int(st, fr.cell(ix[1]).v)
            elif ix[0] == 'const':
                i = ix[1]
            else:
                vec = self.load(st, p)
                i = len(vec.items) - ix[1]
            return Ptr(p.cell, p.path + (('index', i),))
        raise Unmodelled(f'place {pl}')

    def concrete_int(self, st, v):
        if isinstance(v, bool):
            return int(v)
        if isinstance(v, int):
            return v
        if is_sym(v):
            s = z3.simplify(v)
            if z3.is_bv_value(s):
                return s.as_long()
            raise Unmodelled('symbolic integer where a concrete one is required')
        raise Unmodelled(f'int? {v!r}')

    def read_place(self, st, fr, pl):
        p = self.place_ptr(st, fr, pl)
        return self.load(st, p)

    @staticmethod
    def copy_val(v):
        if isinstance(v, Adt):
            return Adt(v.ty, v.variant, [Engine.copy_val(x) for x in v.fields])
        if isinstance(v, Tup):
            return Tup([Engine.copy_val(x) for x in v.xs])
        return v

    # ---- operands / rvalues
    def operand(self, st, fr, op):
        if op[0] == 'place':
            v = self.read_place(st, fr, op[1])
            return v
        return self.const(st, fr, op[1])

    def const(self, st, fr, c):
        if c == 'false':
            return False
        if c == 'true':
            return True
        m = re.match(r'^(-?\d+)_(u|i)(size|\d+)$', c)
        if m:
            return int(m.group(1))
        if c in ('()', 'ZeroSized'):
            return UNIT
        if c.startswith('"'):
            return StrV(text=c[1:-1])
        if len(c) >= 3 and c[0] == "'" and c[-1] == "'":
            # char constant: its code point
            body = c[1:-1]
            esc = {'\\\\': '\\', "\\'": "'", '\\n': '\n', '\\t': '\t', '\\r': '\r', '\\0': '\0'}
            body = esc.get(body, body)
            if len(body) == 1:
                return ord(body)
        if 'promoted[' in c:
            idx = re.search(r'promoted\[(\d+)\]', c).group(1)
            name = fr.fn.name.split('::promoted[')[0] + f'::promoted[{idx}]'
            if not self.ix.has(name):
                raise Unmodelled('promoted ' + c)
            return self.call_fn(st, self.ix.get(name), [])
        m = re.match(r'^(?:[\w]+::)*(\w+)::(\w+)$', c)
        if m and (m.group(1) in self.lay.enums or m.group(1) in STD_ENUMS):
            return Adt(m.group(1), m.group(2), [])
        last = c.split('::')[-1]
        if self.ix.has('const-item ' + last):
            if last not in self.const_cache:
                self.const_cache[last] = self.call_fn(st, self.ix.get('const-item ' + last), [])
            return self.const_cache[last]
        if re.match(r'^[\w:<>{}@ ./#\[\]-]+$', c) and not c[0].isdigit():
            return FnPtr(c)
        raise Unmodelled('const ' + c)

    BINOPS = {'Eq', 'Ne', 'Lt', 'Le', 'Gt', 'Ge', 'Add', 'Sub', 'Mul', 'BitAnd', 'BitOr', 'BitXor', 'Shl', 'Shr',
              'AddWithOverflow', 'SubWithOverflow', 'MulWithOverflow', 'Div', 'Rem', 'AddUnchecked', 'SubUnchecked',
              'ShlUnchecked', 'ShrUnchecked', 'Cmp'}

    def type_of_operand(self, fr, op):
        if op[0] == 'const':
            m = re.match(r'^(-?\d+)_((?:u|i)(?:size|\d+))$', op[1])
            if m:
                return m.group(2)
            if op[1] in ('true', 'false'):
                return 'bool'
            return None
        pl = op[1]
        if pl.kind == 'local':
            return fr.fn.local_types.get(pl.a[0])
        if pl.kind == 'field':
            return pl.a[2]
        return None

    def binop(self, st, fr, opn, a, b, ta):
        signed = bool(ta) and is_signed(ta)
        w = INT_W.get(ta or '', None)
        if isinstance(a, Adt) and isinstance(b, Adt) and not a.fields and not b.fields and opn in ('Eq', 'Ne'):
            r = a.variant == b.variant
            return r if opn == 'Eq' else not r
        if is_sym(a) or is_sym(b):
            if z3.is_bool(a) or z3.is_bool(b) or isinstance(a, bool) or isinstance(b, bool):
                a_ = a if is_sym(a) else z3.BoolVal(bool(a))
                b_ = b if is_sym(b) else z3.BoolVal(bool(b))
                if opn == 'Eq':
                    return a_ == b_
                if opn == 'Ne':
                    return a_ != b_
                if opn == 'BitAnd':
                    return z3.And(a_, b_)
                if opn == 'BitOr':
                    return z3.Or(a_, b_)
                if opn == 'BitXor':
                    return z3.Xor(a_, b_)
                raise Unmodelled('bool binop ' + opn)
            ww = bvw(a) if is_sym(a) else bvw(b)
            a_ = a if is_sym(a) else z3.BitVecVal(a, ww)
            b_ = b if is_sym(b) else z3.BitVecVal(b, ww)
            if opn == 'Eq':
                return a_ == b_
            if opn == 'Ne':
                return a_ != b_
            if opn == 'Lt':
                return (a_ < b_) if signed else z3.ULT(a_, b_)
            if opn == 'Le':
                return (a_ <= b_) if signed else z3.ULE(a_, b_)
            if opn == 'Gt':
                return (a_ > b_) if signed else z3.UGT(a_, b_)
            if opn == 'Ge':
                return (a_ >= b_) if signed else z3.UGE(a_, b_)
            if opn in ('Add', 'AddUnchecked'):
                return a_ + b_
            if opn in ('Sub', 'SubUnchecked'):
                return a_ - b_
            if opn == 'Mul':
                return a_ * b_
            if opn == 'BitAnd':
                return a_ & b_
            if opn == 'BitOr':
                return a_ | b_
            if opn == 'BitXor':
                return a_ ^ b_
            if opn in ('Shl', 'ShlUnchecked'):
                return a_ << b_
            if opn in ('Shr', 'ShrUnchecked'):
                return (a_ >> b_) if signed else z3.LShR(a_, b_)
            if opn == 'AddWithOverflow':
                ov = z3.Not(z3.BVAddNoOverflow(a_, b_, signed)) if not signed else z3.Or(
                    z3.Not(z3.BVAddNoOverflow(a_, b_, True)), z3.Not(z3.BVAddNoUnderflow(a_, b_)))
                return Tup([a_ + b_, ov])
            if opn == 'SubWithOverflow':
                ov = z3.Not(z3.BVSubNoUnderflow(a_, b_, signed)) if not signed else z3.Or(
                    z3.Not(z3.BVSubNoOverflow(a_, b_)), z3.Not(z3.BVSubNoUnderflow(a_, b_, True)))
                return Tup([a_ - b_, ov])
            raise Unmodelled('sym binop ' + opn)
        if isinstance(a, bool) or isinstance(b, bool):
            a, b = int(a), int(b)
            boolres = True
        else:
            boolres = False
        if not (isinstance(a, int) and isinstance(b, int)):
            raise Unmodelled(f'binop {opn} on {a!r} {b!r}')
        cmpops = {'Eq': a == b, 'Ne': a != b, 'Lt': a < b, 'Le': a <= b, 'Gt': a > b, 'Ge': a >= b}
        if opn in cmpops:
            return cmpops[opn]

        def wrap(x):
            if w is None:
                return x
            x &= (1 << w) - 1
            if signed and x >> (w - 1):
                x -= 1 << w
            return x

        def inrange(x):
            if w is None:
                return True
            return (-(1 << (w - 1)) <= x < (1 << (w - 1))) if signed else (0 <= x < (1 << w))
        if opn in ('Add', 'AddUnchecked'):
            return wrap(a + b)
        if opn in ('Sub', 'SubUnchecked'):
            return wrap(a - b)
        if opn == 'Mul':
            return wrap(a * b)
        if opn == 'BitAnd':
            r = a & b
            return bool(r) if boolres else r
        if opn == 'BitOr':
            r = a | b
            return bool(r) if boolres else r
        if opn == 'BitXor':
            r = a ^ b
            return bool(r) if boolres else r
        if opn in ('Shl', 'ShlUnchecked'):
            return wrap(a << b)
        if opn in ('Shr', 'ShrUnchecked'):
            return a >> b
        if opn == 'AddWithOverflow':
            return Tup([wrap(a + b), not inrange(a + b)])
        if opn == 'SubWithOverflow':
            return Tup([wrap(a - b), not inrange(a - b)])
        if opn == 'MulWithOverflow':
            return Tup([wrap(a * b), not inrange(a * b)])
        if opn == 'Div':
            return int(a / b) if signed else a // b
        if opn == 'Rem':
            return a - b * (int(a / b) if signed else a // b)
        if opn == 'Cmp':
            return Adt('Ordering', 'Less' if a < b else ('Equal' if a == b else 'Greater'), [])
        raise Unmodelled('binop ' + opn)

    def rvalue(self, st, fr, rhs):
        if rhs.startswith('&'):
            m = re.match(r'^&(mut |raw const |raw mut )?(\(fake\) )?(.*)$', rhs)
            return self.place_ptr(st, fr, parse_place(m.group(3)))
        if rhs.startswith('discriminant('):
            pl = parse_place(rhs[len('discriminant('):-1])
            p = self.place_ptr(st, fr, pl)
            if isinstance(p.cell.v, Lazy) and not p.path:
                v = p.cell.v.force(st, p.cell)
            else:
                v = self.load(st, p)
                if isinstance(v, Lazy):
                    raise Unmodelled('nested lazy')
            return self.discr_of(v)
        if rhs.startswith('copy ') or rhs.startswith('move ') or rhs.startswith('const ') or rhs.startswith('no_retag '):
            m = re.match(r'^(.*) as ([^()]*(?:\([^)]*\))?[^()]*) \((\w+)(\(.*\))?\)$', rhs)
            if m and ' as ' in rhs and rhs.endswith(')') and not rhs.startswith('const "'):
                v = self.operand(st, fr, parse_operand(m.group(1)))
                return self.cast(st, fr, v, m.group(2), m.group(3), parse_operand(m.group(1)))
            v = self.operand(st, fr, parse_operand(rhs))
            if rhs.startswith('copy '):
                v = self.copy_val(v)
            return v
        m = re.match(r'^(\w+)\((.*)\)$', rhs)
        if m and m.group(1) in self.BINOPS:
            ops = [parse_operand(x) for x in split_top(m.group(2))]
            a, b = [self.operand(st, fr, o) for o in ops]
            ta = self.type_of_operand(fr, ops[0]) or self.type_of_operand(fr, ops[1])
            return self.binop(st, fr, m.group(1), a, b, ta)
        if m and m.group(1) == 'Not':
            v = self.operand(st, fr, parse_operand(m.group(2)))
            if isinstance(v, bool):
                return not v
            if is_sym(v):
                return z3.Not(v) if z3.is_bool(v) else ~v
            op = parse_operand(m.group(2))
            t = self.type_of_operand(fr, op)
            w = INT_W.get(t or '', 64)
            return (~v) & ((1 << w) - 1)
        if m and m.group(1) == 'Neg':
            v = self.operand(st, fr, parse_operand(m.group(2)))
            return -v
        if m and m.group(1) == 'PtrMetadata':
            v = self.operand(st, fr, parse_operand(m.group(2)))
            vv = self.load(st, v)
            if isinstance(vv, VecV):
                return len(vv.items)
            raise Unmodelled('PtrMetadata')
        if m and m.group(1) == 'Len':
            vv = self.read_place(st, fr, parse_place(m.group(2)))
            return len(vv.items)
        if m and m.group(1) == 'deref_copy':
            return self.read_place(st, fr, parse_place(m.group(2)))
        if rhs.startswith('deref_copy '):
            return self.read_place(st, fr, parse_place(rhs[len('deref_copy '):]))
        if rhs.startswith('(') and rhs.endswith(')'):
            return Tup([self.operand(st, fr, parse_operand(x)) for x in split_top(rhs[1:-1])])
        if rhs.startswith('[') and rhs.endswith(']'):
            inner = rhs[1:-1]
            parts = split_top(inner, ';')
            if len(parts) == 2:
                raise Unmodelled('array repeat')
            return VecV([self.operand(st, fr, parse_operand(x)) for x in split_top(inner)])
        return self.aggregate(st, fr, rhs)

    def aggregate(self, st, fr, rhs):
        # Path::<generics>::Variant(args) | Path::Variant { f: x } | Path { f: x } | Path::Variant
        path, grp_kind, grp = rhs, None, None
        if rhs.endswith(')') or rhs.endswith('}'):
            close = rhs[-1]
            opn = '(' if close == ')' else '{'
            depth = 0
            i = len(rhs) - 1
            while i >= 0:
                c = rhs[i]
                if c in ')}]' or (c == '>' and rhs[i - 1] not in '-='):
                    depth += 1
                elif c in '({[<':
                    depth -= 1
                    if depth == 0:
                        break
                i -= 1
            if i > 0 and rhs[i] == opn:
                path = rhs[:i].rstrip()
                grp_kind = opn
                grp = rhs[i + 1:-1]
        # strip generic segments
        segs = []
        for seg in self._path_segments(path):
            if seg.startswith('<'):
                continue
            segs.append(seg)
        if not segs:
            segs = ['?']
        last = segs[-1]
        enum = segs[-2] if len(segs) >= 2 else None
        args = None
        named = None
        if grp_kind:
            if grp_kind == '{':
                named = {}
                for x in split_top(grp):
                    k, v = x.split(': ', 1)
                    named[k.strip()] = self.operand(st, fr, parse_operand(v))
            else:
                args = [self.operand(st, fr, parse_operand(x)) for x in split_top(grp)]
        if rhs.startswith('{closure@'):
            span = rhs[len('{closure@'):rhs.index('}')]
            fields = list(named.values()) if named else (args or [])
            return Adt('{closure@' + span + '}', None, fields)
        if rhs.startswith('{coroutine'):
            raise Unmodelled('coroutine aggregate')
        if enum and (enum in STD_ENUMS or enum in self.lay.enums):
            vs = STD_ENUMS.get(enum) or self.lay.enums[enum]
            for vn, d, fnames in vs:
                if vn == last:
                    if named is not None:
                        fields = list(named.values())   # MIR prints aggregate fields in declaration (index) order
                    else:
                        fields = args or []
                    return Adt(enum, last, fields)
            raise Unmodelled(f'variant {last} of {enum}')
        if last in self.lay.structs or named is not None or args is not None:
            if named is not None:
                fields = list(named.values())       # declaration (index) order, as printed
            else:
                fields = args or []
            return Adt(last, None, fields)
        raise Unmodelled('rvalue ' + rhs)

    @staticmethod
    def _path_segments(path):
        segs = []
        depth = 0
        cur = ''
        i = 0
        while i < len(path):
            c = path[i]
            if c == '<':
                depth += 1
            elif c == '>' and path[i - 1] not in '-=':
                depth -= 1
            if depth == 0 and path[i:i + 2] == '::':
                segs.append(cur)
                cur = ''
                i += 2
                continue
            cur += c
            i += 1
        segs.append(cur)
        return segs

    def cast(self, st, fr, v, ty, kind, srcop):
        if kind in ('IntToInt',):
            w = INT_W.get(ty)
            if w is None:
                raise Unmodelled('cast to ' + ty)
            if isinstance(v, SymEnum):
                v = v.d
            if isinstance(v, Adt) and not v.fields:
                v = self.discr_of(v)
            if is_sym(v):
                if z3.is_bool(v):
                    return z3.If(v, z3.BitVecVal(1, w), z3.BitVecVal(0, w))
                sw = bvw(v)
                st_ = self.type_of_operand(fr, srcop) or ''
                if sw == w:
                    return v
                if sw > w:
                    return z3.Extract(w - 1, 0, v)
                return z3.SignExt(w - sw, v) if is_signed(st_) else z3.ZeroExt(w - sw, v)
            v = int(v)
            v &= (1 << w) - 1
            if is_signed(ty) and v >> (w - 1):
                v -= 1 << w
            return v
        if kind in ('PointerCoercion', 'PtrToPtr', 'Transmute') or kind.startswith('Pointer'):
            return v
        raise Unmodelled('cast kind ' + kind)

    # ---- function execution
    def parse_block(self, fn, bb):
        pb = fn.parsed_blocks.get(bb)
        if pb is not None:
            return pb
        stmts = []
        raw = fn.blocks[bb]
        for s in raw[:-1]:
            if s.startswith('StorageLive') or s.startswith('StorageDead') or s == 'nop;' or s.startswith('FakeRead') \
                    or s.startswith('PlaceMention') or s.startswith('AscribeUserType') or s.startswith('Coverage') \
                    or s.startswith('Retag') or s.startswith('ConstEvalCounter') or s.startswith('Deinit'):
                continue
            if s.startswith('assume('):
                continue
            assert s.endswith(';'), s
            lhs, rhs = s[:-1].split(' = ', 1)
            stmts.append((parse_place(lhs), rhs))
        t = raw[-1]
        term = None
        if t == 'return;':
            term = ('return',)
        elif t == 'unreachable;':
            term = ('unreachable',)
        elif t.startswith('resume') or t.startswith('terminate'):
            term = ('resume',)
        else:
            m = re.match(r'^goto -> bb(\d+);$', t)
            if m:
                term = ('goto', int(m.group(1)))
            if not term:
                m = re.match(r'^drop\(.*\) -> \[return: bb(\d+),.*\];$', t)
                if m:
                    term = ('goto', int(m.group(1)))
            if not term:
                m = re.match(r'^switchInt\((.*)\) -> \[(.*)\];$', t)
                if m:
                    alts = []
                    other = None
                    for alt in split_top(m.group(2)):
                        k, b = alt.split(': ')
                        if k == 'otherwise':
                            other = int(b[2:])
                        else:
                            alts.append((int(k), int(b[2:])))
                    term = ('switch', parse_operand(m.group(1)), alts, other)
            if not term:
                m = re.match(r'^assert\((!?)(.*?), "(.*)\) -> \[success: bb(\d+), .*\];$', t)
                if m:
                    term = ('assert', m.group(1) == '!', parse_operand(m.group(2)), int(m.group(4)), m.group(3))
            if not term:
                m = re.match(r'^(.*?) = (.*)\((.*)\) -> \[return: bb(\d+).*\];$', t)
                if m:
                    argv = [parse_operand(x) for x in split_top(m.group(3))] if m.group(3).strip() else []
                    term = ('call', parse_place(m.group(1)), m.group(2), argv, int(m.group(4)))
            if not term:
                m = re.match(r'^(.*?) = (.*)\((.*)\) -> (unwind .*|\[unwind.*\]);$', t)
                if m:
                    argv = [parse_operand(x) for x in split_top(m.group(3))] if m.group(3).strip() else []
                    term = ('call', parse_place(m.group(1)), m.group(2), argv, None)
            if not term:
                raise Unmodelled('terminator ' + t)
        pb = (stmts, term)
        fn.parsed_blocks[bb] = pb
        return pb

    def call_fn(self, st, fn, args):
        self.executed[fn.name] = self.executed.get(fn.name, 0) + 1
        self.depth += 1
        if self.depth > self.max_depth:
            self.depth -= 1
            raise BoundHit('recursion depth in ' + fn.name)
        try:
            return self._run(st, fn, args)
        finally:
            self.depth -= 1

    def _run(self, st, fn, args):
        fr = Frame(fn)
        for i, a in enumerate(args):
            fr.cell(i + 1).v = a
        bb = 0
        while True:
            st.steps += 1
            if st.steps > st.ex.fuel:
                raise BoundHit('fuel in ' + fn.name)
            stmts, term = self.parse_block(fn, bb)
            for pl, rhs in stmts:
                val = self.rvalue(st, fr, rhs)
                self.store(st, self.place_ptr(st, fr, pl), val)
            k = term[0]
            if k == 'return':
                return fr.cell(0).v if fr.cell(0).v is not None else UNIT
            if k == 'goto':
                bb = term[1]
                continue
            if k == 'switch':
                v = self.operand(st, fr, term[1])
                bb = self.switch(st, fr, v, term[2], term[3], term[1])
                continue
            if k == 'call':
                argv = [self.operand(st, fr, o) for o in term[3]]
                res = self.dispatch(st, fr, term[2], argv)
                if term[4] is None:
                    raise Panic('diverging call ' + term[2])
                self.store(st, self.place_ptr(st, fr, term[1]), res)
                bb = term[4]
                continue
            if k == 'assert':
                v = self.operand(st, fr, term[2])
                if is_sym(v):
                    ok = sym_bool_branch(st, z3.Not(v) if term[1] else v)
                else:
                    ok = (not v) if term[1] else bool(v)
                if not ok:
                    raise Panic('assert failed: ' + term[4], st)
                bb = term[3]
                continue
            if k == 'unreachable':
                raise Unmodelled('reached `unreachable` in ' + fn.name)
            raise Unmodelled('terminator ' + k)

    def switch(self, st, fr, v, alts, other, op):
        if isinstance(v, bool):
            v = int(v)
        if isinstance(v, SymEnum):
            v = v.d
        if isinstance(v, Adt) and not v.fields:
            v = self.discr_of(v)
        if is_sym(v):
            if z3.is_bool(v):
                b = sym_bool_branch(st, v)
                vi = 1 if b else 0
                for k, t in alts:
                    if k == vi:
                        return t
                return other
            v = z3.simplify(v)
            if z3.is_bv_value(v):
                v = v.as_long()
            else:
                w = bvw(v)
                conds = [v == z3.BitVecVal(k, w) for k, _ in alts]
                tg = [t for _, t in alts]
                if other is not None:
                    conds.append(z3.And([v != z3.BitVecVal(k, w) for k, _ in alts]))
                    tg.append(other)
                return tg[choose(st, len(conds), conds)]
        if not isinstance(v, int):
            raise Unmodelled(f'switch on {v!r}')
        t = self.type_of_operand(fr, op)
        w = INT_W.get(t or '', None)
        for k, tgt in alts:
            if k == v or (w and v < 0 and k == v + (1 << w)) or (v < 0 and k in (v + 256, v + (1 << 64), v + (1 << 32))):
                return tgt
        if other is None:
            raise Unmodelled('switch without target')
        return other

    # ---- call resolution
    def resolve(self, fname, argv, st):
        """returns ('fn', Fn) | ('model', callable) for a call-site path"""
        ix = self.ix
        m = re.match(r'^<(.*) as ([\w:]+?)(<.*>)?>::(\w+)(::<.*>)?$', fname)
        if m:
            ty, tr, meth = m.group(1), m.group(2).split('::')[-1], m.group(4)
            key = (tr, norm_type(ty), meth)
            if key in ix.traitimpl:
                return ix.traitimpl[key]
            # reference receivers: <&T as Trait>
            if re.fullmatch(r'[A-Z]\w?', norm_type(ty)) or norm_type(ty) in ('K', 'T', 'Self'):
                # generic parameter: dispatch on the run-time type of the receiver
                rt = self.runtime_type(st, argv[0]) if argv else None
                if rt and (tr, rt, meth) in ix.traitimpl:
                    return ix.traitimpl[(tr, rt, meth)]
            return None
        m = re.match(r'^(?:\w+::)*<impl ([\w:]+)(<.*>)?>::(\w+)(::<.*>)?$', fname)
        if m:
            key = (m.group(1).split('::')[-1], m.group(3))
            if key in ix.inherent:
                return ix.inherent[key]
        segs = [s for s in self._path_segments(fname) if not s.startswith('<')]
        if len(segs) >= 2:
            key = (segs[-2], segs[-1])
            if key in ix.inherent:
                return ix.inherent[key]
        if fname in ix.free:
            return ix.free[fname]
        if segs and segs[-1] in ix.free and (len(segs) == 1 or segs[-2][0].islower()):
            return ix.free[segs[-1]]
        return None

    def runtime_type(self, st, v):
        hops = 0
        while isinstance(v, Ptr) and hops < 4:
            v = self.load(st, v)
            hops += 1
        if isinstance(v, (Adt, SymEnum)):
            return v.ty
        if isinstance(v, StrV):
            return 'String'
        return None

    def call_closure(self, st, clo, args):
        """clo: the closure value (Adt '{closure@span}') or a pointer to it"""
        v = clo
        hops = 0
        while isinstance(v, Ptr) and hops < 4:
            v = self.load(st, v)
            hops += 1
        if isinstance(v, FnPtr):
            target = self.resolve(v.name, args, st)
            if target is None:
                raise Unmodelled('call through fn pointer ' + v.name)
            c = self.contracts.get(target)
            return c(st, args) if c else self.call_fn(st, self.ix.get(target), args)
        if not (isinstance(v, Adt) and v.ty.startswith('{closure@')):
            raise Unmodelled(f'call of non-closure {v!r}')
        span = v.ty[len('{closure@'):-1]
        name = self.ix.closures.get(span)
        if name is None:
            raise Unmodelled('closure body not found: ' + span)
        fn = self.ix.get(name)
        first = fn.arg_types[0] if fn.arg_types else ''
        recv = Ptr(Cell(v)) if first.startswith('&') else v
        return self.call_fn(st, fn, [recv] + list(args))

    def dispatch(self, st, fr, fname, argv):
        c = self.call_contracts.get(fname)
        if c is not None:
            return c(st, argv)
        target = self.resolve(fname, argv, st)
        if target is not None:
            c = self.contracts.get(target)
            if c is not None:
                return c(st, argv)
            return self.call_fn(st, self.ix.get(target), argv)
        from . import stdmodel
        return stdmodel.std_call(self, st, fr, fname, argv)
