"""Model table for the std / core / alloc / anyhow functions that the executed MIR calls.
Every entry here is part of the trusted base of a mirsym result; `engine.models_used` records which
ones a run actually went through (it is copied into the evidence file)."""
import re
import z3
from .interp import (Ptr, Cell, Adt, SymEnum, Tup, RcV, VecV, StrV, SliceIter, FnPtr, Lazy, ErrTok, UNIT, Unmodelled,
                     Panic, Abort, choose, sym_bool_branch, is_sym, bvw)
from .mir import norm_type


def _note(e, name):
    e.models_used[name] = e.models_used.get(name, 0) + 1


def deref_all(e, st, v, maxhops=6):
    h = 0
    while isinstance(v, Ptr) and h < maxhops:
        v = e.load(st, v)
        h += 1
    return v


def to_rc(e, st, v):
    v = deref_all(e, st, v)
    if not isinstance(v, RcV):
        raise Unmodelled(f'expected Rc, got {v!r}')
    return v


def mk_ord(k):
    return Adt('Ordering', ['Less', 'Equal', 'Greater'][k], [])


def some(v):
    return Adt('Option', 'Some', [v])


NONE = lambda: Adt('Option', 'None', [])


# ------------------------------------------------------------------------------- generic equality
def and_(a, b):
    if a is False or b is False:
        return False
    if a is True:
        return b
    if b is True:
        return a
    return z3.And(a, b)


def eq_val(e, st, a, b):
    """structural equality of two values (not pointers); may return python bool or z3 Bool"""
    if isinstance(a, Cell):
        a = a.v
    if isinstance(b, Cell):
        b = b.v
    if isinstance(a, Ptr) or isinstance(b, Ptr):
        return eq_val(e, st, e.load(st, a) if isinstance(a, Ptr) else a, e.load(st, b) if isinstance(b, Ptr) else b)
    if isinstance(a, bool) and isinstance(b, bool):
        return a == b
    if isinstance(a, (int, bool)) and isinstance(b, (int, bool)):
        return int(a) == int(b)
    if is_sym(a) or is_sym(b):
        if is_sym(a) and z3.is_bool(a) or is_sym(b) and z3.is_bool(b):
            a_ = a if is_sym(a) else z3.BoolVal(bool(a))
            b_ = b if is_sym(b) else z3.BoolVal(bool(b))
            return z3.simplify(a_ == b_)
        w = bvw(a) if is_sym(a) else bvw(b)
        a_ = a if is_sym(a) else z3.BitVecVal(a, w)
        b_ = b if is_sym(b) else z3.BitVecVal(b, w)
        r = z3.simplify(a_ == b_)
        return True if z3.is_true(r) else (False if z3.is_false(r) else r)
    if isinstance(a, StrV) and isinstance(b, StrV):
        if a.s is not None and b.s is not None:
            return a.s == b.s
        if a.id is not None and b.id is not None:
            r = z3.simplify(a.id == b.id)
            return True if z3.is_true(r) else (False if z3.is_false(r) else r)
        raise Unmodelled('string eq concrete vs opaque')
    if isinstance(a, RcV) and isinstance(b, RcV):
        if a.cell is b.cell:
            return True
        va, vb = a.cell.v, b.cell.v
        if isinstance(va, Lazy) and hasattr(va, 'eq_hook'):
            return va.eq_hook(e, st, a, b)
        if isinstance(vb, Lazy) and hasattr(vb, 'eq_hook'):
            return vb.eq_hook(e, st, b, a)
        return eq_val(e, st, va, vb)
    if isinstance(a, (Adt, SymEnum)) and isinstance(b, (Adt, SymEnum)):
        ty = a.ty
        key = ('PartialEq', ty, 'eq')
        if key in e.ix.traitimpl:
            return e.call_fn(st, e.ix.get(e.ix.traitimpl[key]), [Ptr(Cell(a)), Ptr(Cell(b))])
        if isinstance(a, SymEnum) or isinstance(b, SymEnum):
            return eq_val(e, st, e.discr_of(a), e.discr_of(b))
        if a.variant != b.variant:
            return False
        r = True
        for x, y in zip(a.fields, b.fields):
            r = and_(r, eq_val(e, st, x, y))
            if r is False:
                return False
        return r
    if isinstance(a, Tup) and isinstance(b, Tup):
        r = True
        for x, y in zip(a.xs, b.xs):
            r = and_(r, eq_val(e, st, x, y))
            if r is False:
                return False
        return r
    if isinstance(a, VecV) and isinstance(b, VecV):
        if len(a.items) != len(b.items):
            return False
        r = True
        for x, y in zip(a.items, b.items):
            r = and_(r, eq_val(e, st, x, y))
            if r is False:
                return False
        return r
    if isinstance(a, Lazy) and hasattr(a, 'eq_value_hook'):
        return a.eq_value_hook(e, st, a, b)
    raise Unmodelled(f'eq of {a!r} and {b!r}')


def as_pybool(st, r):
    if isinstance(r, bool):
        return r
    return sym_bool_branch(st, r)


def cmp_val(e, st, a, b, signed=False):
    """three-way comparison; returns 0/1/2 (Less/Equal/Greater) as python int, forking where symbolic"""
    if isinstance(a, Cell):
        a = a.v
    if isinstance(b, Cell):
        b = b.v
    if isinstance(a, Ptr) or isinstance(b, Ptr):
        return cmp_val(e, st, e.load(st, a) if isinstance(a, Ptr) else a, e.load(st, b) if isinstance(b, Ptr) else b, signed)
    if isinstance(a, (int, bool)) and isinstance(b, (int, bool)):
        a, b = int(a), int(b)
        return 0 if a < b else (1 if a == b else 2)
    if is_sym(a) or is_sym(b):
        if (is_sym(a) and z3.is_bool(a)) or (is_sym(b) and z3.is_bool(b)):
            a = z3.If(a, z3.BitVecVal(1, 8), z3.BitVecVal(0, 8)) if is_sym(a) else int(a)
            b = z3.If(b, z3.BitVecVal(1, 8), z3.BitVecVal(0, 8)) if is_sym(b) else int(b)
        w = bvw(a) if is_sym(a) else bvw(b)
        a_ = a if is_sym(a) else z3.BitVecVal(a, w)
        b_ = b if is_sym(b) else z3.BitVecVal(b, w)
        lt = (a_ < b_) if signed else z3.ULT(a_, b_)
        gt = (a_ > b_) if signed else z3.UGT(a_, b_)
        return choose(st, 3, [lt, a_ == b_, gt])
    if isinstance(a, StrV) and isinstance(b, StrV):
        if a.s is not None and b.s is not None:
            return 0 if a.s < b.s else (1 if a.s == b.s else 2)
        return cmp_val(e, st, a.id, b.id)
    if isinstance(a, RcV) and isinstance(b, RcV):
        return cmp_val(e, st, a.cell.v, b.cell.v)
    if isinstance(a, (Adt, SymEnum)) and isinstance(b, (Adt, SymEnum)):
        key = ('Ord', a.ty, 'cmp')
        if key in e.ix.traitimpl:
            r = e.call_fn(st, e.ix.get(e.ix.traitimpl[key]), [Ptr(Cell(a)), Ptr(Cell(b))])
            return ['Less', 'Equal', 'Greater'].index(r.variant)
        if isinstance(a, SymEnum) or isinstance(b, SymEnum):
            return cmp_val(e, st, e.discr_of(a), e.discr_of(b), True)
        da, db = e.discr_of(a), e.discr_of(b)
        if da != db:
            return 0 if da < db else 2
        for x, y in zip(a.fields, b.fields):
            k = cmp_val(e, st, x, y, signed=True) if _is_signed_field(a, x) else cmp_val(e, st, x, y)
            if k != 1:
                return k
        return 1
    if isinstance(a, Tup) and isinstance(b, Tup):
        for x, y in zip(a.xs, b.xs):
            k = cmp_val(e, st, x, y)
            if k != 1:
                return k
        return 1
    if isinstance(a, VecV) and isinstance(b, VecV):
        for x, y in zip(a.items, b.items):
            k = cmp_val(e, st, x, y)
            if k != 1:
                return k
        la, lb = len(a.items), len(b.items)
        return 0 if la < lb else (1 if la == lb else 2)
    raise Unmodelled(f'cmp of {a!r} and {b!r}')


def _is_signed_field(adt, x):
    return False


def clone_val(e, st, v):
    if isinstance(v, Cell):
        v = v.v
    if isinstance(v, Adt):
        return Adt(v.ty, v.variant, [clone_val(e, st, x) for x in v.fields])
    if isinstance(v, Tup):
        return Tup([clone_val(e, st, x) for x in v.xs])
    if isinstance(v, VecV):
        return VecV([clone_val(e, st, x) for x in v.items], v.elem_ty)
    if isinstance(v, RcV):
        return RcV(v.cell)
    if isinstance(v, Lazy):
        raise Unmodelled('clone of lazy value')
    return v


def vec_of(e, st, v):
    v = deref_all(e, st, v)
    if not isinstance(v, VecV):
        raise Unmodelled(f'expected Vec/slice, got {v!r}')
    return v


def vec_ptr(e, st, v):
    """pointer whose target is the VecV (strip outer reference layers)"""
    h = 0
    while isinstance(v, Ptr):
        t = e.load(st, v)
        if isinstance(t, VecV):
            return v
        v = t
        h += 1
        if h > 6:
            break
    raise Unmodelled(f'expected pointer to Vec/slice, got {v!r}')


def elem_ptr(vp, i):
    return Ptr(vp.cell, vp.path + (('index', i),))


SIGNED_CMP = re.compile(r'^<(&*)(i8|i16|i32|i64|i128|isize) as (Ord|PartialOrd)')


def std_call(e, st, fr, fname, argv):
    n = fname
    # ------------------------------------------------------------------ Rc / Box
    if re.match(r'^<(Lrc|Rc|std::rc::Rc|Box)<.*> as (Deref|AsRef<.*>|Borrow<.*>)>::(deref|as_ref|borrow)$', n):
        _note(e, 'Rc::deref')
        return Ptr(to_rc(e, st, argv[0]).cell)
    if re.match(r'^<(Lrc|Rc|std::rc::Rc)<.*> as Clone>::clone$', n):
        _note(e, 'Rc::clone')
        return RcV(to_rc(e, st, argv[0]).cell)
    if re.match(r'^<.* as Into<(Lrc|Rc|std::rc::Rc)<.*>>>::into$', n) or re.match(r'^(Lrc|Rc|std::rc::Rc|Box)::<.*>::new$', n) \
            or re.match(r'^<(Lrc|Rc|std::rc::Rc)<.*> as From<.*>>::from$', n):
        _note(e, 'Rc::new')
        return RcV(Cell(argv[0]))
    if re.match(r'^<(Lrc|Rc|std::rc::Rc)<.*> as PartialEq>::(eq|ne)$', n):
        _note(e, 'Rc::eq')
        r = eq_val(e, st, to_rc(e, st, argv[0]), to_rc(e, st, argv[1]))
        r = as_pybool(st, r)
        return r if n.endswith('eq') else not r
    # ------------------------------------------------------------------ equality / ordering
    m = re.match(r'^<(.*) as PartialEq(<.*>)?>::(eq|ne)$', n)
    if m:
        _note(e, 'PartialEq::eq')
        a = e.load(st, argv[0])
        b = e.load(st, argv[1])
        r = as_pybool(st, eq_val(e, st, a, b))
        return r if m.group(3) == 'eq' else not r
    m = re.match(r'^<(.*) as Ord>::cmp$', n)
    if m:
        _note(e, 'Ord::cmp')
        signed = bool(SIGNED_CMP.match(n))
        return mk_ord(cmp_val(e, st, e.load(st, argv[0]), e.load(st, argv[1]), signed))
    m = re.match(r'^<(.*) as PartialOrd(<.*>)?>::partial_cmp$', n)
    if m:
        _note(e, 'PartialOrd::partial_cmp')
        signed = bool(SIGNED_CMP.match(n))
        return some(mk_ord(cmp_val(e, st, e.load(st, argv[0]), e.load(st, argv[1]), signed)))
    m = re.match(r'^<(.*) as PartialOrd(<.*>)?>::(lt|le|gt|ge)$', n)
    if m:
        _note(e, 'PartialOrd::lt..')
        k = cmp_val(e, st, e.load(st, argv[0]), e.load(st, argv[1]), bool(SIGNED_CMP.match(n)))
        return {'lt': k == 0, 'le': k <= 1, 'gt': k == 2, 'ge': k >= 1}[m.group(3)]
    if re.match(r'^<&?bool as (std::ops::)?Not>::not$', n):
        _note(e, 'bool::not')
        v = deref_all(e, st, argv[0])
        return z3.Not(v) if is_sym(v) else (not v)
    # ------------------------------------------------------------------ Clone / conversions
    if re.match(r'^<.* as Clone>::clone$', n):
        _note(e, 'Clone::clone(structural)')
        return clone_val(e, st, e.load(st, argv[0]))
    if re.match(r'^<(.*) as (Into|From)<(.*)>>::(into|from)$', n):
        m = re.match(r'^<(.*) as (Into|From)<(.*)>>::(into|from)$', n)
        if norm_type(m.group(1)) == norm_type(m.group(3)):
            _note(e, 'Into/From identity')
            return argv[0]
    # ------------------------------------------------------------------ Vec / slices
    if re.match(r'^Vec::<.*>::new$', n) or re.match(r'^Vec::<.*>::with_capacity$', n):
        _note(e, 'Vec::new')
        return VecV([])
    if re.match(r'^Vec::<.*>::push$', n):
        _note(e, 'Vec::push')
        vec_of(e, st, argv[0]).items.append(argv[1])
        return UNIT
    if re.match(r'^Vec::<.*>::pop$', n):
        _note(e, 'Vec::pop')
        v = vec_of(e, st, argv[0])
        if not v.items:
            return NONE()
        return some(v.items.pop())
    if re.match(r'^(Vec::<.*>|(core|std)::slice::<impl \[.*\]>)::contains$', n):
        _note(e, 'slice::contains (PartialEq over the elements, forking on symbolic equalities)')
        needle = argv[1]
        for it in vec_of(e, st, argv[0]).items:
            if as_pybool(st, eq_val(e, st, it, needle)):
                return True
        return False
    if re.match(r'^(Vec::<.*>|(core|std)::slice::<impl \[.*\]>)::len$', n):
        _note(e, 'len')
        return len(vec_of(e, st, argv[0]).items)
    if re.match(r'^(Vec::<.*>|(core|std)::slice::<impl \[.*\]>)::is_empty$', n):
        _note(e, 'is_empty')
        return len(vec_of(e, st, argv[0]).items) == 0
    if re.match(r'^Vec::<.*>::remove$', n):
        _note(e, 'Vec::remove')
        v = vec_of(e, st, argv[0])
        i = e.concrete_int(st, argv[1])
        if i >= len(v.items):
            raise Panic('Vec::remove out of bounds')
        return v.items.pop(i)
    if re.match(r'^<Vec<.*> as (Deref|DerefMut|AsRef<.*>)>::(deref|deref_mut|as_ref)$', n) \
            or re.match(r'^Vec::<.*>::(as_slice|as_mut_slice)$', n):
        _note(e, 'Vec::deref')
        return vec_ptr(e, st, argv[0])
    if re.match(r'^(core|std)::slice::<impl \[.*\]>::get::<usize>$', n):
        _note(e, 'slice::get')
        vp = vec_ptr(e, st, argv[0])
        v = e.load(st, vp)
        i = e.concrete_int(st, argv[1])
        if 0 <= i < len(v.items):
            return some(elem_ptr(vp, i))
        return NONE()
    if re.match(r'^<Vec<.*> as Index<usize>>::index$', n):
        _note(e, 'Vec::index')
        vp = vec_ptr(e, st, argv[0])
        v = e.load(st, vp)
        i = e.concrete_int(st, argv[1])
        if not (0 <= i < len(v.items)):
            raise Panic('index out of bounds')
        return elem_ptr(vp, i)
    if re.match(r'^(core|std)::slice::<impl \[.*\]>::(first|last)$', n):
        _note(e, 'slice::first/last')
        vp = vec_ptr(e, st, argv[0])
        v = e.load(st, vp)
        if not v.items:
            return NONE()
        return some(elem_ptr(vp, 0 if n.endswith('first') else len(v.items) - 1))
    if re.match(r'^(core|std)::slice::<impl \[.*\]>::(sort|sort_unstable)$', n):
        _note(e, 'slice::sort (insertion sort through Ord::cmp)')
        v = vec_of(e, st, argv[0])
        out = []
        for x in v.items:
            pos = len(out)
            # stable insertion: find first position from the right where out[pos-1] <= x
            while pos > 0:
                k = cmp_val(e, st, out[pos - 1], x)
                if k <= 1:
                    break
                pos -= 1
            out.insert(pos, x)
        v.items[:] = out
        return UNIT
    if re.match(r'^<&(mut )?(\[.*\]|Vec<.*>) as IntoIterator>::into_iter$', n) \
            or re.match(r'^(core|std)::slice::<impl \[.*\]>::iter$', n):
        _note(e, 'slice::iter')
        return SliceIter(vec_ptr(e, st, argv[0]))
    if re.match(r'^<(std|core)::slice::Iter<.*> as Iterator>::next$', n):
        _note(e, 'slice::Iter::next')
        it = deref_all(e, st, argv[0])
        if not isinstance(it, SliceIter):
            raise Unmodelled('Iter::next on ' + repr(it))
        v = e.load(st, it.vec)
        if it.i < len(v.items):
            it.i += 1
            return some(elem_ptr(it.vec, it.i - 1))
        return NONE()
    if re.match(r'^<Vec<.*> as IntoIterator>::into_iter$', n):
        _note(e, 'Vec::into_iter (by value)')
        v = argv[0]
        if not isinstance(v, VecV):
            raise Unmodelled('Vec::into_iter on ' + repr(v))
        return SliceIter(Ptr(Cell(v)))
    if re.match(r'^<(std|alloc)::vec::IntoIter<.*> as Iterator>::next$', n):
        _note(e, 'vec::IntoIter::next')
        it = deref_all(e, st, argv[0])
        v = e.load(st, it.vec)
        if it.i < len(v.items):
            it.i += 1
            return some(v.items[it.i - 1])
        return NONE()
    if re.match(r'^<(std|core)::slice::Iter<.*> as Iterator>::enumerate$', n):
        _note(e, 'Iter::enumerate')
        it = argv[0]
        it.enumerate = True
        return it
    if re.match(r'^<(std|core)::slice::Iter<.*> as Iterator>::rev$', n):
        _note(e, 'Iter::rev')
        it = argv[0]
        v = e.load(st, it.vec)
        it.rev = True
        it.i = len(v.items)
        return it
    if re.match(r'^<((std|core)::iter::)?Rev<(std|core)::slice::Iter<.*>> as Iterator>::next$', n):
        _note(e, 'Rev<Iter>::next')
        it = deref_all(e, st, argv[0])
        if it.i > 0:
            it.i -= 1
            return some(elem_ptr(it.vec, it.i))
        return NONE()
    if re.match(r'^<((std|core)::iter::)?Enumerate<(std|core)::slice::Iter<.*>> as Iterator>::next$', n):
        _note(e, 'Enumerate<Iter>::next')
        it = deref_all(e, st, argv[0])
        v = e.load(st, it.vec)
        if it.i < len(v.items):
            it.i += 1
            return some(Tup([it.i - 1, elem_ptr(it.vec, it.i - 1)]))
        return NONE()
    if re.match(r'^<I as IntoIterator>::into_iter$', n) or re.match(r'^<((std|core)::)?(slice::Iter|iter::Enumerate|iter::Rev|Enumerate|Rev|vec::IntoIter)<.*> as IntoIterator>::into_iter$', n) \
            or n == '<SubTypePairIterator as IntoIterator>::into_iter':
        _note(e, 'IntoIterator identity')
        return argv[0]
    # ------------------------------------------------------------------ Option / Result / Try
    m = re.match(r'^(std::option::)?Option::<.*>::(expect|unwrap)$', n)
    if m:
        _note(e, 'Option::expect')
        o = argv[0]
        if o.variant == 'Some':
            return o.fields[0]
        raise Panic('Option::expect on None')
    m = re.match(r'^(std::result::)?Result::<.*>::(expect|unwrap)$', n)
    if m:
        _note(e, 'Result::unwrap')
        o = argv[0]
        if o.variant == 'Ok':
            return o.fields[0]
        raise Panic('Result::unwrap on Err')
    m = re.match(r'^(std::result::)?Result::<.*>::(ok|err|is_ok|is_err)$', n)
    if m:
        _note(e, 'Result::' + m.group(2))
        r = argv[0] if m.group(2) in ('ok', 'err') else deref_all(e, st, argv[0])
        k = m.group(2)
        if k == 'ok':
            return some(r.fields[0]) if r.variant == 'Ok' else NONE()
        if k == 'err':
            return some(r.fields[0]) if r.variant == 'Err' else NONE()
        return (r.variant == 'Ok') == (k == 'is_ok')
    if re.match(r'^(std::option::)?Option::<.*>::(is_some|is_none)$', n):
        _note(e, 'Option::is_some')
        o = deref_all(e, st, argv[0])
        return (o.variant == 'Some') == n.endswith('is_some')
    m = re.match(r'^(std::option::)?Option::<.*>::(replace|take|insert)$', n)
    if m:
        _note(e, 'Option::' + m.group(2))
        p = argv[0]
        old = e.load(st, p)
        if m.group(2) == 'take':
            e.store(st, p, NONE())
            return old
        e.store(st, p, some(argv[1]))
        if m.group(2) == 'replace':
            return old
        return Ptr(p.cell, p.path + (('downcast', 'Some'), ('field', 0)))
    if re.match(r'^(std::option::)?Option::<.*>::as_ref$', n):
        _note(e, 'Option::as_ref')
        p = argv[0]
        o = e.load(st, p)
        if o.variant == 'None':
            return NONE()
        return some(Ptr(p.cell, p.path + (('downcast', 'Some'), ('field', 0))))
    if re.match(r'^<(std::result::)?Result<.*> as (std::ops::)?Try>::branch$', n):
        _note(e, 'Result::branch')
        r = argv[0]
        if r.variant == 'Ok':
            return Adt('ControlFlow', 'Continue', [r.fields[0]])
        return Adt('ControlFlow', 'Break', [Adt('Result', 'Err', [r.fields[0]])])
    if re.match(r'^<(std::option::)?Option<.*> as (std::ops::)?Try>::branch$', n):
        _note(e, 'Option::branch')
        r = argv[0]
        if r.variant == 'Some':
            return Adt('ControlFlow', 'Continue', [r.fields[0]])
        return Adt('ControlFlow', 'Break', [NONE()])
    if re.match(r'^<(std::result::)?Result<.*> as (std::ops::)?FromResidual<.*>>::from_residual$', n):
        _note(e, 'Result::from_residual')
        return Adt('Result', 'Err', [argv[0].fields[0]])
    if re.match(r'^<(std::option::)?Option<.*> as (std::ops::)?FromResidual<.*>>::from_residual$', n):
        _note(e, 'Option::from_residual')
        return NONE()
    # ------------------------------------------------------------------ closures
    if re.match(r'^core::bool::<impl bool>::then::<.*>$', n):
        _note(e, 'bool::then')
        b = argv[0]
        if is_sym(b):
            b = sym_bool_branch(st, b)
        return some(e.call_closure(st, argv[1], [])) if b else NONE()
    if re.match(r'^core::bool::<impl bool>::then_some::<.*>$', n):
        _note(e, 'bool::then_some')
        b = argv[0]
        if is_sym(b):
            b = sym_bool_branch(st, b)
        return some(argv[1]) if b else NONE()
    m = re.match(r'^(std::option::)?Option::<.*>::(map|and_then|unwrap_or_else|map_or|filter|or_else)::<.*>$', n)
    if m:
        _note(e, 'Option::' + m.group(2))
        o = argv[0]
        k = m.group(2)
        if k == 'map':
            return some(e.call_closure(st, argv[1], [o.fields[0]])) if o.variant == 'Some' else NONE()
        if k == 'and_then':
            return e.call_closure(st, argv[1], [o.fields[0]]) if o.variant == 'Some' else NONE()
        if k == 'unwrap_or_else':
            return o.fields[0] if o.variant == 'Some' else e.call_closure(st, argv[1], [])
        if k == 'or_else':
            return o if o.variant == 'Some' else e.call_closure(st, argv[1], [])
        if k == 'map_or':
            return e.call_closure(st, argv[2], [o.fields[0]]) if o.variant == 'Some' else argv[1]
        if k == 'filter':
            if o.variant == 'None':
                return o
            keep = e.call_closure(st, argv[1], [Ptr(Cell(o.fields[0]))])
            if is_sym(keep):
                keep = sym_bool_branch(st, keep)
            return o if keep else NONE()
    m = re.match(r'^<(std|core)::slice::Iter<.*> as Iterator>::(any|all)::<.*>$', n)
    if m:
        _note(e, 'Iter::' + m.group(2))
        it = deref_all(e, st, argv[0])
        v = e.load(st, it.vec)
        want_any = m.group(2) == 'any'
        while it.i < len(v.items):
            it.i += 1
            r = e.call_closure(st, argv[1], [elem_ptr(it.vec, it.i - 1)])
            if is_sym(r):
                r = sym_bool_branch(st, r)
            if r and want_any:
                return True
            if not r and not want_any:
                return False
        return not want_any
    if re.match(r'^<.* as (FnOnce|FnMut|Fn)<.*>>::(call_once|call_mut|call)$', n):
        _note(e, 'Fn::call')
        a = argv[1]
        return e.call_closure(st, argv[0], list(a.xs) if isinstance(a, Tup) else [a])
    # ------------------------------------------------------------------ errors / formatting
    if re.match(r'^must_use::<.*>$', n):
        return argv[0]
    if 'AdhocKind>::anyhow_kind' in n or 'anyhow_kind' in n:
        return UNIT
    if re.match(r'^(core::fmt::|std::fmt::)?Arguments::<.*>::(from_str|new_const|new_v1|new)', n):
        _note(e, 'fmt::* -> opaque string')
        return StrV(text='<fmt>')
    if n.startswith('anyhow::') or n.startswith('<anyhow::') or 'anyhow::Error' in n and 'from' in n:
        _note(e, 'anyhow::* -> opaque error token')
        return ErrTok()
    if re.match(r'^(std|core|alloc)::fmt::', n) or n in ('format', 'std::fmt::format', 'alloc::fmt::format') \
            or re.match(r'^(core|std)::fmt::(rt::)?Arguments', n) or 'fmt::Arguments' in n or 'fmt::rt::' in n:
        _note(e, 'fmt::* -> opaque string')
        return StrV(text='<fmt>')
    if re.match(r'^(std|core)::mem::drop::<.*>$', n):
        return UNIT
    raise Unmodelled('call ' + fname)
