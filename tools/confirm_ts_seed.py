#!/usr/bin/env python3
"""confirm a seeded change whose demonstration is a shell/Node script (sub-agent deliverables), in the agent's scratch worktree:
   usage: confirm_ts_seed.py <worktree> <outdir> <k> <seed-id> <property>"""
import sys, os, subprocess, json, shutil, re, glob, tempfile
wt, outdir, k, sid, prop = sys.argv[1:6]
env = dict(os.environ, CARGO_NET_OFFLINE='true')
def sh(cmd, **kw):
    return subprocess.run(cmd, shell=True, cwd=wt, env=env, stdout=subprocess.PIPE, stderr=subprocess.STDOUT, text=True, **kw)
diff = os.path.join(outdir, f'change{k}.diff')
def run_demo():
    shp = os.path.join(outdir, f'demo{k}.sh')
    mjs = os.path.join(outdir, f'demo{k}.mjs')
    if os.path.exists(shp):
        r = sh(f'bash {shp} {wt}', timeout=1800)
        return r.returncode, r.stdout[-1500:]
    d = tempfile.mkdtemp(prefix='seedrt')
    for f in ('codegen-v2', 'hash', 'err', 'openapi-pp', 'b'):
        sh(f'ts-strip strip packages/beff-client/src/{f}.ts > {d}/{f}.mjs')
    open(os.path.join(d, 'zod-stub.mjs'), 'w').write('export const z = { custom: () => { throw new Error("no zod"); } };\n')
    shutil.copyfile(mjs, os.path.join(d, os.path.basename(mjs)))
    r = sh(f'node {d}/{os.path.basename(mjs)} {d}', timeout=600)
    shutil.rmtree(d, ignore_errors=True)
    return r.returncode, r.stdout[-1500:]
sh('git checkout -- . && git clean -fdq -e target')
r = sh(f'git apply {diff}')
assert r.returncode == 0, r.stdout
t = sh('cargo test --workspace --no-fail-fast --offline 2>&1 | grep -E "^test result"')
results = [l for l in t.stdout.split('\n') if l.startswith('test result')]
passed = sum(int(re.search(r'(\d+) passed', l).group(1)) for l in results)
failed = sum(int(re.search(r'(\d+) failed', l).group(1)) for l in results)
rc1, out1 = run_demo()
sh('git checkout -- . && git clean -fdq -e target')
rc2, out2 = run_demo()
sh('git checkout -- . && git clean -fdq -e target')
ok = failed == 0 and passed >= 397 and rc1 != 0 and rc2 == 0
sd = os.path.join('/verif/seeded', sid)
os.makedirs(sd, exist_ok=True)
shutil.copyfile(diff, os.path.join(sd, 'patch.diff'))
for f in glob.glob(os.path.join(outdir, f'demo{k}.*')):
    shutil.copyfile(f, os.path.join(sd, os.path.basename(f)))
for f in glob.glob(os.path.join(outdir, 'c15_*')):
    shutil.copyfile(f, os.path.join(sd, os.path.basename(f)))
reb = os.path.join(outdir, f'change{k}_rebased.diff')
if os.path.exists(reb):
    shutil.copyfile(reb, os.path.join(sd, 'patch_rebased.diff'))
md = os.path.join(outdir, f'change{k}.md')
meta = {'id': sid, 'property': prop, 'source': f'sub-agent (given only the property text and its own worktree): {os.path.basename(outdir)} change {k}',
        'base_commit': subprocess.run('git rev-parse HEAD', shell=True, cwd=wt, stdout=subprocess.PIPE, text=True).stdout.strip(),
        'description': open(md).read() if os.path.exists(md) else '',
        'confirmed': {'suite_with_change': {'passed': passed, 'failed': failed}, 'demo_exit_with_change': rc1, 'demo_exit_without_change': rc2, 'ok': ok},
        'ran': ['git apply patch.diff; cargo test --workspace --no-fail-fast --offline', 'the demonstration (demo.sh / node demo.mjs over the ts-strip-ped runtime) with and without the change'],
        'detected_by': None}
json.dump(meta, open(os.path.join(sd, 'meta.json'), 'w'), indent=1)
print(sid, 'OK' if ok else 'NOT-CONFIRMED', passed, failed, rc1, rc2)
if not ok:
    print(out1[-800:]); print('---'); print(out2[-500:])
