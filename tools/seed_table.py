#!/usr/bin/env python3
"""prints the markdown table of section 8 of DESIGN.md from seeded/*/meta.json; with --write, replaces the table between the seed-table markers of DESIGN.md"""
import json, glob, os, sys, io
_out = io.StringIO()
_print = print
def print(*a):
    _print(*a, file=_out)
print('| seed | property | change (one line) | needs, to manifest | detected by |')
print('|---|---|---|---|---|')
for mp in sorted(glob.glob('/verif/seeded/*/meta.json')):
    m = json.load(open(mp))
    d = (m.get('description') or '').replace('|', '\\|')
    lines = [l.strip() for l in d.split('\n') if l.strip()]
    title = lines[0].lstrip('# ').strip() if lines else ''
    title = title.split(' - ', 1)[-1].split(' — ', 1)[-1][:150]
    needs = ''
    for l in lines:
        low = l.lower()
        if low.startswith('needed to manifest') or low.startswith('needs') or low.startswith('- needs') or 'to manifest' in low[:40]:
            needs = l.split(':', 1)[-1].strip()[:170]
            break
    det = m.get('detected_by')
    if isinstance(det, dict):
        if 'status' in det:
            ds = det['status']
        else:
            parts = []
            for tier in ('quick', 'thorough'):
                if tier in det:
                    r = det[tier]
                    if r['exit'] == 1 and r['violations']:
                        parts.append(f"**{m['property']} {tier}** ({r['wall_s']:.0f} s)")
                    elif r['exit'] == 0:
                        parts.append(f"missed by {tier}")
                    else:
                        parts.append(f"{tier}: exit {r['exit']} (inconclusive)")
            for k2, r in det.items():
                if k2.startswith('other:') and r['exit'] == 1 and r['violations']:
                    parts.append(f"**{k2[6:]} quick** ({r['wall_s']:.0f} s)")
            ds = '; '.join(parts)
    else:
        ds = str(det) if det else 'not run'
    print(f"| {m['id']} | {m['property']} | {title} | {needs} | {ds} |")

text = _out.getvalue()
if '--write' in sys.argv:
    d = open('/verif/DESIGN.md').read()
    a = d.index('<!-- seed-table-begin -->') + len('<!-- seed-table-begin -->\n')
    b = d.index('<!-- seed-table-end -->')
    open('/verif/DESIGN.md', 'w').write(d[:a] + text + d[b:])
else:
    sys.stdout.write(text)
