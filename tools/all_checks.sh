#!/bin/bash
# usage: all_checks.sh <seed> [tier] [evidence-dir]   — every registered check once on the current tree; prints one line per check
seed=${1:-0}; tier=${2:-quick}; ev=${3:-}
mkdir -p /tmp/allchecks
for id in $(python3 -c "import json; print(' '.join(c['property_id'] for c in json.load(open('/verif/MANIFEST.json'))['checks']))"); do
  t0=$(date +%s)
  if [ -n "$ev" ]; then export VERIF_EVIDENCE_DIR=$ev; fi
  VERIF_SEED=$seed timeout 14400 python3-vt /verif/check.py $id --tier $tier > /tmp/allchecks/$id.$seed.$tier.log 2>&1; rc=$?
  echo "$id seed=$seed tier=$tier rc=$rc $(( $(date +%s) - t0 ))s viol=$(grep -c '^VIOLATION' /tmp/allchecks/$id.$seed.$tier.log) known=$(grep -c '^KNOWN' /tmp/allchecks/$id.$seed.$tier.log) $(grep -E '^(INCONCLUSIVE)' /tmp/allchecks/$id.$seed.$tier.log | head -1 | cut -c1-200)"
done
