#!/usr/bin/env python3
"""Run the registered check of every seeded change against /repo with the change applied (always reverted), and record
which tier detects it: seeded/<id>/meta.json 'detected_by' and seeded/MATRIX.md.
usage: seed_matrix.py [--only C05,C06] [--thorough-if-missed]"""
import sys, os, subprocess, json, time, glob, re
V = '/verif'
only = None
for i, a in enumerate(sys.argv):
    if a == '--only': only = sys.argv[i + 1].split(',')
ids = None
for i, a in enumerate(sys.argv):
    if a == '--ids': ids = sys.argv[i + 1].split(',')
thorough = '--thorough-if-missed' in sys.argv
env = dict(os.environ, VERIF_EVIDENCE_DIR='/tmp/seed_evidence', CARGO_NET_OFFLINE='true')
os.makedirs('/tmp/seed_evidence', exist_ok=True)
def git(*a):
    return subprocess.run(['git', '-C', '/repo'] + list(a), stdout=subprocess.PIPE, stderr=subprocess.STDOUT, text=True)
assert git('status', '--porcelain').stdout.strip() == '', '/repo not clean'
man = json.load(open(V + '/MANIFEST.json'))
claimed = {c['property'] if 'property' in c else c.get('id') for c in man.get('checks', man.get('properties', []))}
rows = []
for sd in sorted(glob.glob(V + '/seeded/*/')):
    sid = os.path.basename(sd.rstrip('/'))
    mp = sd + 'meta.json'
    if not os.path.exists(mp): continue
    meta = json.load(open(mp))
    pid = meta['property']
    if only and pid not in only: continue
    if ids and sid not in ids: continue
    res = {}
    patch = None
    for cand in ('patch.diff', 'patch_rebased.diff'):
        if os.path.exists(sd + cand) and git('apply', '--check', sd + cand).returncode == 0:
            patch = cand; break
    if patch is None:
        res = {'status': 'patch does not apply to the current tree'}
    elif not os.path.exists(f'{V}/checks/{pid.lower()}.py'):
        res = {'status': 'no check claimed for this property', 'patch': patch}
    else:
        for tier in (['quick', 'thorough'] if thorough else ['quick']):
            assert git('apply', sd + patch).returncode == 0
            t0 = time.time()
            try:
                r = subprocess.run(['python3-vt', V + '/check.py', pid, '--tier', tier], env=env, stdout=subprocess.PIPE, stderr=subprocess.STDOUT, text=True, timeout=5400)
                rc, out = r.returncode, r.stdout
            except subprocess.TimeoutExpired as e:
                rc, out = 124, (e.stdout or b'').decode() if isinstance(e.stdout, bytes) else (e.stdout or '')
            finally:
                git('checkout', '--', '.'); git('clean', '-fdq')
            viol = [l for l in out.split('\n') if l.startswith('VIOLATION')]
            what = [l.strip()[:300] for l in out.split('\n') if l.strip().startswith('what:')]
            keys = [l.strip()[5:].strip()[:160] for l in out.split('\n') if l.strip().startswith('key:')]
            res[tier] = {'exit': rc, 'violations': len(viol), 'keys': keys[:6], 'first': what[0] if what else None, 'wall_s': round(time.time() - t0, 1)}
            if rc == 1 and viol: break
        res['patch'] = patch
    # a change assigned to one property may be caught by the check of another (e.g. a compiler change that alters accepted values is C01's)
    ALSO = {'C08': ['C01'], 'C11': ['C01'], 'C15': ['C01'], 'C02': ['C01'], 'C03': ['C01'], 'C12': ['C03']}
    own_caught = any(isinstance(v, dict) and v.get('exit') == 1 and v.get('violations') for v in res.values())
    if patch is not None and not own_caught and 'status' not in res:
        for other in ALSO.get(pid, []):
            assert git('apply', sd + patch).returncode == 0
            t0 = time.time()
            try:
                r = subprocess.run(['python3-vt', V + '/check.py', other, '--tier', 'quick'], env=env, stdout=subprocess.PIPE, stderr=subprocess.STDOUT, text=True, timeout=5400)
                rc, out = r.returncode, r.stdout
            except subprocess.TimeoutExpired:
                rc, out = 124, ''
            finally:
                git('checkout', '--', '.'); git('clean', '-fdq')
            viol = [l for l in out.split('\n') if l.startswith('VIOLATION')]
            keys = [l.strip()[5:].strip()[:160] for l in out.split('\n') if l.strip().startswith('key:')]
            res['other:' + other] = {'exit': rc, 'violations': len(viol), 'keys': keys[:4], 'wall_s': round(time.time() - t0, 1)}
            if rc == 1 and viol: break
    meta['detected_by'] = res
    json.dump(meta, open(mp, 'w'), indent=1)
    rows.append((sid, pid, res))
    print(sid, json.dumps(res)[:400], flush=True)
assert git('status', '--porcelain').stdout.strip() == '', '/repo not clean after run'
