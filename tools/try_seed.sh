#!/bin/bash
# usage: try_seed.sh <patch.diff> <PID> [tier]   — applies the patch to /repo, runs the check, always reverts
patch=$1; pid=$2; tier=${3:-quick}
cd /repo && git apply "$patch" || { echo "apply failed"; exit 9; }
cd /verif && timeout 3000 python3-vt check.py $pid --tier $tier > /tmp/try_seed.out 2>&1; rc=$?
git -C /repo checkout -- . 
grep -E "^(VIOLATION|KNOWN|INCONCLUSIVE|OK|  what)" /tmp/try_seed.out | cut -c1-400 | head -8
echo "rc=$rc"
