#!/usr/bin/env python3
"""confirm a seeded change produced by a sub-agent, in a scratch worktree (never /repo):
   usage: confirm_seed.py <worktree> <outdir> <k> <seed-id> <property>
   1. apply change<k>.diff, run the full test suite -> must pass
   2. add the demonstration -> must fail with the change
   3. revert the change -> demonstration must pass
   writes /verif/seeded/<seed-id>/{patch.diff, demo.*, meta.json}"""
import sys, os, subprocess, json, shutil, re, glob
wt, outdir, k, sid, prop = sys.argv[1:6]
env = dict(os.environ, CARGO_NET_OFFLINE='true')
def sh(cmd, **kw):
    return subprocess.run(cmd, shell=True, cwd=wt, env=env, stdout=subprocess.PIPE, stderr=subprocess.STDOUT, text=True, **kw)
diff = os.path.join(outdir, f'change{k}.diff')
demos = [p for p in glob.glob(os.path.join(outdir, f'demo{k}.*'))]
demo = demos[0]
sh('git checkout -- . && git clean -fdq -e target')
r = sh(f'git apply {diff}')
assert r.returncode == 0, r.stdout
t = sh('cargo test --workspace --no-fail-fast --offline 2>&1 | grep -E "^test result|FAILED|failed" ')
results = [l for l in t.stdout.split('\n') if l.startswith('test result')]
passed = sum(int(re.search(r'(\d+) passed', l).group(1)) for l in results)
failed = sum(int(re.search(r'(\d+) failed', l).group(1)) for l in results)
suite_ok = failed == 0 and passed >= 397
ext = os.path.splitext(demo)[1]
name = f'seed_demo_{sid.replace("-", "_")}'
dst = os.path.join(wt, 'packages/beff-core/tests', name + ext)
shutil.copyfile(demo, dst)
d1 = sh(f'cargo test --offline -p beff-core --test {name} 2>&1 | tail -30')
fails_with = 'test result: FAILED' in d1.stdout or 'error' in d1.stdout and 'test result: ok' not in d1.stdout
sh(f'git apply -R {diff}')
d2 = sh(f'cargo test --offline -p beff-core --test {name} 2>&1 | tail -30')
passes_without = 'test result: ok' in d2.stdout and 'FAILED' not in d2.stdout
os.remove(dst)
sh('git checkout -- . && git clean -fdq -e target')
ok = suite_ok and fails_with and passes_without
sd = os.path.join('/verif/seeded', sid)
os.makedirs(sd, exist_ok=True)
shutil.copyfile(diff, os.path.join(sd, 'patch.diff'))
shutil.copyfile(demo, os.path.join(sd, 'demo' + ext))
md = os.path.join(outdir, f'change{k}.md')
meta = {'id': sid, 'property': prop, 'source': f'sub-agent (given only the property text and its own worktree): {os.path.basename(outdir)} change {k}',
        'description': open(md).read() if os.path.exists(md) else '',
        'confirmed': {'suite_with_change': {'passed': passed, 'failed': failed}, 'demo_fails_with_change': fails_with,
                      'demo_passes_without_change': passes_without, 'ok': ok},
        'ran': [f'git apply patch.diff; cargo test --workspace --no-fail-fast --offline', f'cargo test --offline -p beff-core --test {name} (with and without the change)'],
        'detected_by': None}
json.dump(meta, open(os.path.join(sd, 'meta.json'), 'w'), indent=1)
print(sid, 'OK' if ok else 'NOT-CONFIRMED', passed, failed, fails_with, passes_without)
if not ok:
    print(d1.stdout[-1500:]); print(d2.stdout[-800:])
