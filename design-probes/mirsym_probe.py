#!/usr/bin/env python3
"""Throw-away probe: can a small MIR interpreter run the real BddOps bodies in 'modular' mode?
Forking symbolic execution; Bdd children are opaque handles with 16-bit truth tables (4 atoms)."""
import re, sys, time, itertools
from z3 import *

MIR = open(sys.argv[1]).read()

# ---------------------------------------------------------------- parsing
def split_functions(text):
    fns = {}
    cur = None; buf = []
    for line in text.split('\n'):
        if cur is None:
            name = None
            if line.startswith('fn ') and line.endswith('{'):
                m = re.search(r'\((_1: |\) -> )', line)
                if m: name = line[3:m.start()]
            elif line.startswith('const ') and 'promoted[' in line and line.endswith('{'):
                name = line[len('const '):].split(']: ')[0] + ']'
            if name is not None:
                cur = name; buf = [line]
        else:
            buf.append(line)
            if line == '}':
                fns[cur] = buf; cur = None
    return fns

FNS = split_functions(MIR)

class Fn:
    def __init__(self, name, lines):
        self.name = name
        hdr = lines[0]
        self.nargs = 0
        m = re.match(r'^fn .*?\((.*)\) -> ', hdr)
        if m:
            self.nargs = len(re.findall(r'_\d+: ', m.group(1)))
        self.blocks = {}
        cur = None
        for l in lines[1:]:
            s = l.strip()
            m = re.match(r'^bb(\d+)( \(cleanup\))?: \{$', s)
            if m:
                cur = int(m.group(1)); self.blocks[cur] = []; continue
            if cur is None: continue
            if s == '}':
                cur = None; continue
            if s: self.blocks[cur].append(s)

PARSED = {}
def get_fn(name):
    if name not in PARSED:
        PARSED[name] = Fn(name, FNS[name])
    return PARSED[name]

def find_fn(pred):
    r = [n for n in FNS if pred(n)]
    assert len(r) == 1, r
    return r[0]

# place / operand parser -------------------------------------------------
class P:  # place AST
    def __init__(s, kind, *a): s.kind = kind; s.a = a
    def __repr__(s): return f"{s.kind}{s.a}"

def skip_type(src, i):
    # skip a type until the matching ')' at depth 0
    depth = 0
    while i < len(src):
        c = src[i]
        if c in '(<[{': depth += 1
        elif c in ')>]}':
            if depth == 0: return i
            depth -= 1
        i += 1
    return i

def parse_place(src, i=0):
    src_ = src
    if src[i] == '_':
        m = re.match(r'_(\d+)', src[i:]); node = P('local', int(m.group(1))); i += m.end()
    elif src[i] == '(':
        i += 1
        if src[i] == '*':
            inner, i = parse_place(src, i + 1); node = P('deref', inner)
            assert src[i] == ')', src_[i:]; i += 1
        else:
            inner, i = parse_place(src, i)
            if src[i:i+4] == ' as ':
                m = re.match(r' as (\w+)\)', src[i:]); node = P('downcast', inner, m.group(1)); i += m.end()
            elif src[i] == '.':
                m = re.match(r'\.(\d+): ', src[i:]); idx = int(m.group(1)); i += m.end()
                i = skip_type(src, i); assert src[i] == ')'; i += 1
                node = P('field', inner, idx)
            else:
                raise Exception('place? ' + src_[i:])
    else:
        raise Exception('place?? ' + src_[i:])
    # trailing .N without type (tuple of locals e.g. _6.0 never appears bare in this dump)
    return node, i

def parse_operand(s):
    s = s.strip()
    if s.startswith('no_retag '): s = s[len('no_retag '):]
    if s.startswith('copy ') or s.startswith('move '):
        pl, i = parse_place(s[5:]); assert i == len(s) - 5, s
        return ('place', pl)
    if s.startswith('const '):
        return ('const', s[6:])
    raise Exception('operand? ' + s)

def split_top(s, sep=','):
    out = []; depth = 0; cur = ''
    for c in s:
        if c in '(<[{': depth += 1
        elif c in ')>]}': depth -= 1
        if c == sep and depth == 0:
            out.append(cur); cur = ''
        else: cur += c
    if cur.strip(): out.append(cur)
    return [x.strip() for x in out]

# ---------------------------------------------------------------- values
class Cell:
    def __init__(s, v=None): s.v = v
class Ptr:
    def __init__(s, cell, path=()): s.cell = cell; s.path = path
class Adt:
    def __init__(s, ty, variant, fields): s.ty = ty; s.variant = variant; s.fields = fields
    def __repr__(s): return f"{s.ty}::{s.variant}{s.fields}"
class Tup:
    def __init__(s, xs): s.xs = list(xs)
class Opaque:
    """Rc<Bdd> handle whose content is unknown: 16-bit table; lazily initialised to an Adt."""
    n = 0
    def __init__(s, st, tt=None):
        Opaque.n += 1; s.id = Opaque.n
        s.tt = tt if tt is not None else BitVec(f"tt{s.id}", 16)
        s.init = None
class RcV:
    def __init__(s, cell): s.cell = cell   # cell.v is Adt Bdd or Opaque

VARIANTS = {'Bdd': ['True', 'False', 'Node'], 'Atom': ['Mapping', 'List', 'Map', 'Set'],
            'Ordering': ['Less', 'Equal', 'Greater']}
FIELDS = {('Bdd', 'Node'): ['atom', 'left', 'middle', 'right']}
MASK = [0xAAAA, 0xCCCC, 0xF0F0, 0xFF00]

class Abort(Exception): pass
class State:
    def __init__(s): s.pc = []; s.decisions = []; s.pos = 0
class Explorer:
    """re-execution based DFS over decision sequences"""
    def __init__(s): s.stack = [[]]; s.paths = 0
    def run(s, body):
        results = []
        while s.stack:
            prefix = s.stack.pop()
            st = State(); st.prefix = prefix; st.ex = s
            try:
                r = body(st)
                results.append((st, r)); s.paths += 1
            except Abort:
                pass
        return results
def choose(st, n, conds=None):
    """pick a branch 0..n-1; conds[i] = z3 condition of branch i (or None)"""
    if st.pos < len(st.prefix):
        k = st.prefix[st.pos]
    else:
        k = 0
        for alt in range(n - 1, 0, -1):
            st.ex.stack.append(st.decisions[:st.pos] + [alt])
    st.decisions.append(k)
    st.pos += 1
    if conds is not None and conds[k] is not None:
        st.pc.append(conds[k])
        sol = Solver(); sol.add(st.pc)
        if sol.check() != sat: raise Abort()
    return k

# ---------------------------------------------------------------- semantics helpers
def tt_of(st, v):
    """truth table of an Rc<Bdd>/Bdd value"""
    if isinstance(v, RcV): v = v.cell.v
    if isinstance(v, Opaque):
        return v.tt
    assert isinstance(v, Adt) and v.ty == 'Bdd', v
    if v.variant == 'True': return BitVecVal(0xFFFF, 16)
    if v.variant == 'False': return BitVecVal(0, 16)
    atom, l, m, r = v.fields
    A = atom_mask(atom)
    return (A & tt_of(st, l)) | tt_of(st, m) | (~A & tt_of(st, r))
def atom_mask(atom):
    idx = atom.fields[0]
    if isinstance(idx, int): return BitVecVal(MASK[idx], 16)
    e = BitVecVal(MASK[3], 16)
    for i in (2, 1, 0): e = If(idx == i, BitVecVal(MASK[i], 16), e)
    return e

def force_bdd(st, cell):
    """lazy init of an opaque handle: fork on its top constructor"""
    v = cell.v
    if isinstance(v, Adt): return v
    assert isinstance(v, Opaque)
    if v.init is None or True:
        k = choose(st, 3, [v.tt == 0xFFFF, v.tt == 0, None])
        if k == 0: nv = Adt('Bdd', 'True', [])
        elif k == 1: nv = Adt('Bdd', 'False', [])
        else:
            a = BitVec(f"atom_o{v.id}", 64); st.pc.append(ULT(a, 4))
            kids = [RcV(Cell(Opaque(st))) for _ in range(3)]
            nv = Adt('Bdd', 'Node', [Adt('Atom', 'List', [a])] + kids)
            st.pc.append(v.tt == tt_of(st, nv))
        cell.v = nv
        return nv

# ---------------------------------------------------------------- interpreter
class Frame:
    def __init__(s, fn): s.fn = fn; s.locals = {}
    def cell(s, i):
        if i not in s.locals: s.locals[i] = Cell(None)
        return s.locals[i]

def load_ptr(st, ptr):
    v = ptr.cell.v
    for step in ptr.path:
        v = project(st, v, step, ptr)
    return v
def project(st, v, step, ptr=None):
    kind = step[0]
    if kind == 'field':
        if isinstance(v, Tup): return v.xs[step[1]]
        if isinstance(v, Adt): return v.fields[step[1]]
        raise Exception(f'field of {v}')
    if kind == 'downcast':
        assert isinstance(v, Adt) and v.variant == step[1], (v, step)
        return v
    raise Exception(step)

def eval_place_ptr(st, fr, pl):
    """returns Ptr to the place"""
    if pl.kind == 'local': return Ptr(fr.cell(pl.a[0]))
    if pl.kind == 'deref':
        inner = load_ptr(st, eval_place_ptr(st, fr, pl.a[0]))
        if isinstance(inner, Ptr): return inner
        if isinstance(inner, RcV): return Ptr(inner.cell)
        raise Exception(f'deref of {inner}')
    if pl.kind == 'field':
        p = eval_place_ptr(st, fr, pl.a[0]); return Ptr(p.cell, p.path + (('field', pl.a[1]),))
    if pl.kind == 'downcast':
        p = eval_place_ptr(st, fr, pl.a[0]); return Ptr(p.cell, p.path + (('downcast', pl.a[1]),))
    raise Exception(pl)

def read_place(st, fr, pl):
    p = eval_place_ptr(st, fr, pl)
    # lazy-init opaque Bdd when we look inside it
    if p.path and isinstance(p.cell.v, Opaque): force_bdd(st, p.cell)
    return load_ptr(st, p)

def eval_operand(st, fr, op):
    if op[0] == 'place': return read_place(st, fr, op[1])
    c = op[1]
    if c == 'false': return False
    if c == 'true': return True
    m = re.match(r'^(-?\d+)_(u|i)(size|\d+)$', c)
    if m: return int(m.group(1))
    if 'promoted[' in c:
        idx = re.search(r'promoted\[(\d+)\]', c).group(1)
        pf = get_fn(fr.fn.name + f'::promoted[{idx}]')
        r = call_fn(st, pf, [])
        return r
    raise Exception('const ' + c)

def discr_of(st, v, cellref=None):
    if isinstance(v, Adt): return VARIANTS[v.ty].index(v.variant) - (1 if v.ty == 'Ordering' else 0)
    raise Exception(f'discr of {v}')

def eval_rvalue(st, fr, rhs):
    rhs = rhs.strip()
    if rhs.startswith('&mut '): return eval_place_ptr(st, fr, parse_place(rhs[5:])[0])
    if rhs.startswith('&'): return eval_place_ptr(st, fr, parse_place(rhs[1:])[0])
    if rhs.startswith('discriminant('):
        pl, _ = parse_place(rhs[len('discriminant('):-1])
        p = eval_place_ptr(st, fr, pl)
        v = load_ptr(st, p) if not (isinstance(p.cell.v, Opaque) and not p.path) else None
        if v is None or isinstance(v, Opaque):
            v = force_bdd(st, p.cell)
        return discr_of(st, v)
    m = re.match(r'^(Eq|Ne|Lt|Le|Gt|Ge)\((.*)\)$', rhs)
    if m:
        a, b = [eval_operand(st, fr, parse_operand(x)) for x in split_top(m.group(2))]
        assert isinstance(a, int) and isinstance(b, int), rhs
        return {'Eq': a == b, 'Ne': a != b, 'Lt': a < b, 'Le': a <= b, 'Gt': a > b, 'Ge': a >= b}[m.group(1)]
    if rhs.startswith('copy ') or rhs.startswith('move ') or rhs.startswith('const ') or rhs.startswith('no_retag '):
        return eval_operand(st, fr, parse_operand(rhs))
    if rhs.startswith('(') and rhs.endswith(')'):
        return Tup([eval_operand(st, fr, parse_operand(x)) for x in split_top(rhs[1:-1])])
    m = re.match(r'^(\w+)::(\w+)( \{(.*)\})?$', rhs)
    if m:
        ty, var = m.group(1), m.group(2)
        fields = []
        if m.group(4):
            kv = dict(x.split(': ', 1) for x in split_top(m.group(4)))
            fields = [eval_operand(st, fr, parse_operand(kv[f])) for f in FIELDS[(ty, var)]]
        return Adt(ty, var, fields)
    raise Exception('rvalue? ' + rhs)

def store(st, fr, pl, val):
    p = eval_place_ptr(st, fr, pl)
    assert not p.path, 'projection store unsupported in probe'
    p.cell.v = val

CONTRACT = {}   # name fragment -> python function(st, args)
STATS = {'calls': 0}

def rc_of(st, x):
    """deref &Rc<Bdd> or Rc<Bdd> to RcV"""
    while isinstance(x, Ptr): x = load_ptr(st, x)
    assert isinstance(x, RcV), x
    return x

def bdd_value_of(st, x):
    while isinstance(x, Ptr):
        if isinstance(x.cell.v, Opaque) and not x.path: return x.cell  # opaque cell
        x = load_ptr(st, x)
    return x

def std_call(st, fname, args):
    if fname in ('<Lrc<Bdd> as Deref>::deref',):
        return Ptr(rc_of(st, args[0]).cell)
    if fname == '<Lrc<Bdd> as Clone>::clone':
        return RcV(rc_of(st, args[0]).cell)
    if fname in ('<Bdd as Into<Lrc<Bdd>>>::into', 'Lrc::<Bdd>::new'):
        return RcV(Cell(args[0]))
    if fname in ('<usize as Ord>::cmp', '<isize as Ord>::cmp'):
        a = load_ptr(st, args[0]); b = load_ptr(st, args[1])
        if isinstance(a, int) and isinstance(b, int):
            k = 0 if a < b else (1 if a == b else 2)
        else:
            a_, b_ = (BitVecVal(a, 64) if isinstance(a, int) else a), (BitVecVal(b, 64) if isinstance(b, int) else b)
            k = choose(st, 3, [ULT(a_, b_), a_ == b_, UGT(a_, b_)])
        return Adt('Ordering', ['Less', 'Equal', 'Greater'][k], [])
    if fname == '<&usize as PartialEq>::eq':
        a = load_ptr(st, load_ptr(st, args[0])); b = load_ptr(st, load_ptr(st, args[1]))
        if isinstance(a, int) and isinstance(b, int): return a == b
        a_, b_ = (BitVecVal(a, 64) if isinstance(a, int) else a), (BitVecVal(b, 64) if isinstance(b, int) else b)
        return choose(st, 2, [a_ == b_, a_ != b_]) == 0
    if fname == '<&bdd::Atom as PartialEq>::eq':
        return call_fn(st, get_fn(FN_ATOM_EQ), [load_ptr(st, args[0]), load_ptr(st, args[1])])
    if fname in ('<&Lrc<Bdd> as PartialEq>::eq', '<Lrc<Bdd> as PartialEq>::eq'):
        a = args[0]; b = args[1]
        if fname.startswith('<&'): a = load_ptr(st, a); b = load_ptr(st, b)
        ra, rb = rc_of(st, a), rc_of(st, b)
        return rc_eq(st, ra, rb)
    if fname == '<Bdd as PartialEq>::eq':
        return bdd_eq(st, args[0], args[1])
    raise Exception('unmodelled call ' + fname)

def rc_eq(st, ra, rb):
    if ra.cell is rb.cell: return True
    va, vb = ra.cell.v, rb.cell.v
    if isinstance(va, Opaque) and isinstance(vb, Opaque):
        # uninterpreted structural equality: either equal (then same table) or not
        k = choose(st, 2, [va.tt == vb.tt, None])
        if k == 0:
            rb.cell = ra.cell  # unify
            return True
        return False
    return bdd_eq(st, Ptr(ra.cell), Ptr(rb.cell))

def bdd_eq(st, pa, pb):
    # run the real derived PartialEq (forces lazy init through discriminant reads)
    if pa.cell is pb.cell and pa.path == pb.path:
        pass
    return call_fn(st, get_fn(FN_BDD_EQ), [pa, pb])

def call_fn(st, fn, args):
    STATS['calls'] += 1
    fr = Frame(fn)
    for i, a in enumerate(args): fr.cell(i + 1).v = a
    bb = 0; steps = 0
    while True:
        steps += 1
        if steps > 2000: raise Exception('fuel')
        stmts = fn.blocks[bb]
        for s in stmts[:-1]:
            assert s.endswith(';'), s
            lhs, rhs = s[:-1].split(' = ', 1)
            store(st, fr, parse_place(lhs)[0], eval_rvalue(st, fr, rhs))
        t = stmts[-1]
        if t == 'return;': return fr.cell(0).v
        if t == 'unreachable;': raise Exception('reached unreachable in ' + fn.name)
        m = re.match(r'^goto -> bb(\d+);$', t)
        if m: bb = int(m.group(1)); continue
        m = re.match(r'^drop\(.*\) -> \[return: bb(\d+),.*\];$', t)
        if m: bb = int(m.group(1)); continue
        m = re.match(r'^switchInt\((.*)\) -> \[(.*)\];$', t)
        if m:
            v = eval_operand(st, fr, parse_operand(m.group(1)))
            if isinstance(v, bool): v = int(v)
            assert isinstance(v, int), (t, v)
            tgt = None
            for alt in split_top(m.group(2)):
                k, b = alt.split(': ')
                if k == 'otherwise': other = int(b[2:])
                elif int(k) == (v & 0xFFFFFFFFFFFFFFFF if False else v) or (v < 0 and int(k) == (v + 256)): tgt = int(b[2:])
            bb = tgt if tgt is not None else other; continue
        m = re.match(r'^(.*?) = (.*)\((.*)\) -> \[return: bb(\d+).*\];$', t)
        if m:
            lhs, fname, argstr, nxt = m.group(1), m.group(2), m.group(3), int(m.group(4))
            argv = [eval_operand(st, fr, parse_operand(x)) for x in split_top(argstr)] if argstr.strip() else []
            res = dispatch(st, fname, argv)
            store(st, fr, parse_place(lhs)[0], res); bb = nxt; continue
        raise Exception('terminator? ' + t)

def dispatch(st, fname, argv):
    for frag, c in CONTRACT.items():
        if fname == frag: return c(st, argv)
    if fname in CRATE: return call_fn(st, get_fn(CRATE[fname]), argv)
    return std_call(st, fname, argv)

# names --------------------------------------------------------------------
IMPL_OPS = 'bdd::<impl at packages/beff-core/src/subtyping/bdd.rs:107:1: 107:24>::'
FN_FROM_NODE = find_fn(lambda n: n.endswith('>::from_node') and 'bdd.rs' in n)
FN_BDD_EQ = 'bdd::<impl at packages/beff-core/src/subtyping/bdd.rs:62:10: 62:19>::eq'
FN_ATOM_EQ = 'bdd::<impl at packages/beff-core/src/subtyping/bdd.rs:50:10: 50:19>::eq'
FN_ATOM_CMP = 'bdd::<impl at packages/beff-core/src/subtyping/bdd.rs:50:38: 50:41>::cmp'
CRATE = {
    'atom_cmp': 'bdd::atom_cmp' if 'bdd::atom_cmp' in FNS else find_fn(lambda n: n.endswith('atom_cmp')),
    '<bdd::Atom as Ord>::cmp': FN_ATOM_CMP,
    '<Atom as Ord>::cmp': FN_ATOM_CMP,
    '<bdd::Atom as PartialEq>::eq': FN_ATOM_EQ,
}

def spec_contract(op):
    def c(st, argv):
        a = rc_of(st, argv[0]); ta = tt_of(st, a)
        if op == 'complement': t = ~ta
        else:
            b = rc_of(st, argv[1]); tb = tt_of(st, b)
            t = {'union': ta | tb, 'intersect': ta & tb, 'diff': ta & ~tb}[op]
        o = Opaque(st); st.pc.append(o.tt == t)
        return RcV(Cell(o))
    return c
def from_node_contract(st, argv):
    node = Adt('Bdd', 'Node', argv)
    o = Opaque(st); st.pc.append(o.tt == tt_of(st, node)); return RcV(Cell(o))

def set_contracts(exclude):
    CONTRACT.clear()
    for op in ('union', 'intersect', 'diff', 'complement'):
        if op != exclude or True:
            CONTRACT['<Lrc<Bdd> as BddOps>::' + op] = spec_contract(op)
    CONTRACT['Bdd::from_node'] = from_node_contract

def symbolic_root(st, tag):
    return RcV(Cell(Opaque(st)))

def check(op, mutate=None):
    set_contracts(op)
    ex = Explorer(); viol = []; t0 = time.time(); nq = 0
    def body(st):
        x = symbolic_root(st, 'x'); tx = x.cell.v.tt
        if op == 'from_node':
            a = BitVec('root_atom', 64); st.pc.append(ULT(a, 4))
            l, m, r = [RcV(Cell(Opaque(st))) for _ in range(3)]
            if choose(st, 2) == 1: r = RcV(l.cell)      # aliasing case left==right
            atom = Adt('Atom', 'List', [a])
            expect = tt_of(st, Adt('Bdd', 'Node', [atom, l, m, r]))
            CONTRACT.pop('Bdd::from_node', None)
            res = call_fn(st, get_fn(FN_FROM_NODE), [atom, l, m, r])
            return expect, tt_of(st, res)
        if op == 'complement':
            res = call_fn(st, get_fn(IMPL_OPS + op), [Ptr(Cell(x))])
            return ~tx, tt_of(st, res)
        y = symbolic_root(st, 'y'); ty = y.cell.v.tt
        if choose(st, 2) == 1: y = RcV(x.cell); ty = tx   # aliasing case
        res = call_fn(st, get_fn(IMPL_OPS + op), [Ptr(Cell(x)), Ptr(Cell(y))])
        expect = {'union': tx | ty, 'intersect': tx & ty, 'diff': tx & ~ty}[op]
        return expect, tt_of(st, res)
    results = ex.run(body)
    for st, (expect, got) in results:
        s = Solver(); s.add(st.pc); s.add(expect != got); nq += 1
        if s.check() == sat: viol.append((st.decisions, s.model()))
    print(f"{op:11s} paths={len(results):4d} queries={nq:4d} violations={len(viol)} calls={STATS['calls']} wall={time.time()-t0:.1f}s")
    return viol

if __name__ == '__main__':
    for op in ('from_node', 'union', 'intersect', 'diff', 'complement'):
        check(op)
