#![allow(unused)]
use beff_core::subtyping::bdd::{Atom, Bdd, BddOps};
use std::rc::Rc;

#[cfg(kani)]
mod proofs {
    use super::*;
    const NA: usize = 3;
    #[derive(Clone, Copy)]
    struct Asg(bool, bool, bool, bool);
    impl Asg {
        fn get(&self, i: usize) -> bool { match i { 0 => self.0, 1 => self.1, 2 => self.2, _ => self.3 } }
    }
    fn any_asg() -> Asg { Asg(kani::any(), kani::any(), kani::any(), kani::any()) }

    fn eval(b: &Bdd, asg: &Asg) -> bool {
        match b {
            Bdd::True => true,
            Bdd::False => false,
            Bdd::Node { atom, left, middle, right } => {
                let i = match atom { Atom::List(i) => *i, _ => 0 };
                let a = asg.get(i);
                (a && eval(left, asg)) || eval(middle, asg) || (!a && eval(right, asg))
            }
        }
    }

    // arbitrary ordered BDD with atoms >= lo, depth <= d; every allocation has a concrete variant
    fn any_bdd(lo: usize, d: u32) -> Rc<Bdd> {
        if d == 0 || lo >= NA || kani::any() {
            if kani::any() { return Rc::new(Bdd::True); } else { return Rc::new(Bdd::False); }
        }
        let mut a: usize = lo;
        if lo + 1 < NA && kani::any() { a = lo + 1; }
        if lo + 2 < NA && kani::any() { a = lo + 2; }
        Rc::new(Bdd::Node {
            atom: Atom::List(a),
            left: any_bdd(a + 1, d - 1),
            middle: any_bdd(a + 1, d - 1),
            right: any_bdd(a + 1, d - 1),
        })
    }

    macro_rules! h {
        ($name:ident, $d:expr, $uw:expr, $op:ident, $spec:expr) => {
            #[kani::proof]
            #[kani::unwind($uw)]
            fn $name() {
                let x = any_bdd(0, $d);
                let y = any_bdd(0, $d);
                let asg = any_asg();
                let r = x.$op(&y);
                let f: fn(bool, bool) -> bool = $spec;
                assert_eq!(eval(&r, &asg), f(eval(&x, &asg), eval(&y, &asg)));
                std::mem::forget(r); std::mem::forget(x); std::mem::forget(y);
            }
        };
    }
    h!(union_d1, 1, 3, union, |a, b| a || b);
    h!(inter_d1, 1, 3, intersect, |a, b| a && b);
    h!(diff_d1, 1, 3, diff, |a, b| a && !b);
    h!(union_d2, 2, 6, union, |a, b| a || b);
    h!(inter_d2, 2, 6, intersect, |a, b| a && b);
    h!(diff_d2, 2, 6, diff, |a, b| a && !b);

    #[kani::proof]
    #[kani::unwind(6)]
    fn compl_d2() {
        let x = any_bdd(0, 2);
        let asg = any_asg();
        let r = x.complement();
        assert_eq!(eval(&r, &asg), !eval(&x, &asg));
        std::mem::forget(r); std::mem::forget(x);
    }
}
