import time, sys
sys.argv=['x']
exec(open(__import__('os').path.join(__import__('os').path.dirname(__file__) or '.', 'sha_monolithic_probe.py')).read().split("bytes_=[BitVec")[0])
# per-round obligation: fresh state, fresh w
def js_round(st, w, k, mut=False):
    a,b,c,d,e,f,g,h=st
    s1=jxor(jxor(jrotr(e,6),jrotr(e,11)),jrotr(e,25))
    ch=jxor(jand(e,f),jand(jnot(e),g))
    temp1=jushr(h+s1+ch+BitVecVal(k,64)+w,0)
    s0=jxor(jxor(jrotr(a,2),jrotr(a,13)),jrotr(a,21 if mut else 22))
    maj=jxor(jxor(jand(a,b),jand(a,c)),jand(b,c))
    temp2=jushr(s0+maj,0)
    return [jushr(temp1+temp2,0),a,b,c,jushr(d+temp1,0),e,f,g]
def ref_round(st,w,k):
    a,b,c,d,e,f,g,h=st
    S1=RotateRight(e,6)^RotateRight(e,11)^RotateRight(e,25)
    ch=(e&f)^(~e&g)
    t1=h+S1+ch+BitVecVal(k,32)+w
    S0=RotateRight(a,2)^RotateRight(a,13)^RotateRight(a,22)
    maj=(a&b)^(a&c)^(b&c)
    return [t1+S0+maj,a,b,c,d+t1,e,f,g]
for mut in (False,True):
    st32=[BitVec(f"s{i}",32) for i in range(8)]; w32=BitVec("w",32)
    st64=[ZeroExt(32,x) for x in st32]; w64=ZeroExt(32,w32)
    t=time.time(); tot=0
    for i in range(64):
        s=Solver(); s.add(Or([toi32(x)!=y for x,y in zip(js_round(st64,w64,K[i],mut),ref_round(st32,w32,K[i]))]))
        r=s.check(); tot+=1
        if r!=unsat: print("round",i,r); break
    print("mut" if mut else "orig","rounds",tot,round(time.time()-t,2),"s")
# cube: full block, message fixed to zeros -> mutant must be sat quickly
bytes_=[BitVec(f"b{i}",8) for i in range(64)]
M=[Concat(bytes_[4*i],bytes_[4*i+1],bytes_[4*i+2],bytes_[4*i+3]) for i in range(16)]
chunk=[ZeroExt(56,x) for x in bytes_]
r=ref_block([BitVecVal(x,32) for x in H0],M); j=js_block([BitVecVal(x,64) for x in H0],chunk,True)
s=Solver(); s.add(Or([toi32(x)!=y for x,y in zip(j,r)])); s.add([b==0 for b in bytes_])
t=time.time(); print("cube",s.check(),round(time.time()-t,2),"s")
