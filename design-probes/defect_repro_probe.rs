use beff_core::test_tools::{print_types, print_cgen};
fn run(name: &str, src: &str) {
    let s = src.to_string();
    let r = std::panic::catch_unwind(move || print_types(&s));
    match r { Ok(t) => println!("== {name}: OK\n{t}\n"), Err(e) => println!("== {name}: PANIC {:?}\n", e.downcast_ref::<String>().cloned().or(e.downcast_ref::<&str>().map(|s| s.to_string()))) }
    let s = src.to_string();
    let r = std::panic::catch_unwind(move || print_cgen(&s));
    match r { Ok(_) => println!("   cgen OK"), Err(e) => println!("   cgen PANIC {:?}\n", e.downcast_ref::<String>().cloned().or(e.downcast_ref::<&str>().map(|s| s.to_string()))) }
}
fn main() {
    std::panic::set_hook(Box::new(|_| {}));
    run("tuple_ref_twice", r#"
        type T = [number];
        type X = T extends T ? "yes" : "no";
        parse.buildParsers<{ X: X }>();
    "#);
    run("tuple_ref_vs_obj", r#"
        type T = [number, string];
        type U = [number, string];
        type X = T extends U ? "yes" : "no";
        type Y = [T, T] extends [U, U] ? "yes" : "no";
        parse.buildParsers<{ X: X, Y: Y }>();
    "#);
    run("exclude_number_lit", r#"
        type X = Exclude<number, 1>;
        parse.buildParsers<{ X: X }>();
    "#);
    run("exclude_string_lit", r#"
        type X = Exclude<string, "a">;
        parse.buildParsers<{ X: X }>();
    "#);
    run("exclude_union", r#"
        type X = Exclude<"a" | "b" | number, "a">;
        parse.buildParsers<{ X: X }>();
    "#);
    run("tpl", r#"
        type X = `a${string}`;
        parse.buildParsers<{ X: X }>();
    "#);
}
