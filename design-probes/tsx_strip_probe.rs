use swc_common::{sync::Lrc, FileName, SourceMap, GLOBALS, Globals};
use swc_ecma_ast::*;
use swc_ecma_codegen::{text_writer::JsWriter, Config, Emitter};
use swc_ecma_parser::{parse_file_as_module, Syntax, TsSyntax};
use swc_ecma_visit::{VisitMut, VisitMutWith};

struct Strip;
impl VisitMut for Strip {
    fn visit_mut_module_items(&mut self, items: &mut Vec<ModuleItem>) {
        items.retain(|it| match it {
            ModuleItem::Stmt(Stmt::Decl(Decl::TsInterface(_) | Decl::TsTypeAlias(_))) => false,
            ModuleItem::ModuleDecl(ModuleDecl::ExportDecl(ExportDecl { decl: Decl::TsInterface(_) | Decl::TsTypeAlias(_), .. })) => false,
            _ => true,
        });
        items.visit_mut_children_with(self);
    }
    fn visit_mut_binding_ident(&mut self, b: &mut BindingIdent) { b.type_ann = None; b.id.optional = false; }
    fn visit_mut_function(&mut self, f: &mut Function) { f.return_type = None; f.type_params = None; f.visit_mut_children_with(self); }
    fn visit_mut_arrow_expr(&mut self, f: &mut ArrowExpr) { f.return_type = None; f.type_params = None; f.visit_mut_children_with(self); }
    fn visit_mut_expr(&mut self, e: &mut Expr) {
        e.visit_mut_children_with(self);
        let inner = match e { Expr::TsAs(x) => Some(x.expr.clone()), Expr::TsNonNull(x) => Some(x.expr.clone()), Expr::TsSatisfies(x)=>Some(x.expr.clone()), Expr::TsConstAssertion(x)=>Some(x.expr.clone()), Expr::TsTypeAssertion(x)=>Some(x.expr.clone()), _ => None };
        if let Some(i) = inner { *e = *i; }
    }
    fn visit_mut_class_prop(&mut self, p: &mut ClassProp) { p.type_ann=None; p.accessibility=None; p.readonly=false; p.is_optional=false; p.definite=false; p.visit_mut_children_with(self); }
    fn visit_mut_class_method(&mut self, m: &mut ClassMethod) { m.accessibility=None; m.is_abstract=false; m.is_override=false; m.visit_mut_children_with(self); }
    fn visit_mut_class(&mut self, c: &mut Class) {
        c.is_abstract=false; c.implements.clear(); c.type_params=None; c.super_type_params=None;
        c.body.retain(|m| match m { ClassMember::Method(m) => m.function.body.is_some(), ClassMember::TsIndexSignature(_) => false, ClassMember::ClassProp(p) => !p.declare, _ => true });
        c.visit_mut_children_with(self);
    }
    fn visit_mut_call_expr(&mut self, c: &mut CallExpr) { c.type_args=None; c.visit_mut_children_with(self); }
    fn visit_mut_new_expr(&mut self, c: &mut NewExpr) { c.type_args=None; c.visit_mut_children_with(self); }
}
fn main() {
    let path = std::env::args().nth(1).unwrap();
    let src = std::fs::read_to_string(&path).unwrap();
    GLOBALS.set(&Globals::new(), || {
        let cm: Lrc<SourceMap> = Default::default();
        let fm = cm.new_source_file(FileName::Custom(path.clone()).into(), src);
        let mut m = parse_file_as_module(&fm, Syntax::Typescript(TsSyntax::default()), EsVersion::latest(), None, &mut vec![]).expect("parse");
        m.visit_mut_with(&mut Strip);
        let mut buf = vec![];
        { let mut em = Emitter { cfg: Config::default(), cm: cm.clone(), comments: None, wr: JsWriter::new(cm.clone(), "\n", &mut buf, None) }; em.emit_module(&m).unwrap(); }
        print!("{}", String::from_utf8(buf).unwrap());
    });
}
