import time
from z3 import *
K=[0x428a2f98,0x71374491,0xb5c0fbcf,0xe9b5dba5,0x3956c25b,0x59f111f1,0x923f82a4,0xab1c5ed5,0xd807aa98,0x12835b01,0x243185be,0x550c7dc3,0x72be5d74,0x80deb1fe,0x9bdc06a7,0xc19bf174,0xe49b69c1,0xefbe4786,0x0fc19dc6,0x240ca1cc,0x2de92c6f,0x4a7484aa,0x5cb0a9dc,0x76f988da,0x983e5152,0xa831c66d,0xb00327c8,0xbf597fc7,0xc6e00bf3,0xd5a79147,0x06ca6351,0x14292967,0x27b70a85,0x2e1b2138,0x4d2c6dfc,0x53380d13,0x650a7354,0x766a0abb,0x81c2c92e,0x92722c85,0xa2bfe8a1,0xa81a664b,0xc24b8b70,0xc76c51a3,0xd192e819,0xd6990624,0xf40e3585,0x106aa070,0x19a4c116,0x1e376c08,0x2748774c,0x34b0bcb5,0x391c0cb3,0x4ed8aa4a,0x5b9cca4f,0x682e6ff3,0x748f82ee,0x78a5636f,0x84c87814,0x8cc70208,0x90befffa,0xa4506ceb,0xbef9a3f7,0xc67178f2]
H0=[0x6a09e667,0xbb67ae85,0x3c6ef372,0xa54ff53a,0x510e527f,0x9b05688c,0x1f83d9ab,0x5be0cd19]
# reference (FIPS, BV32)
def ref_block(H, M):
    W=list(M)
    for i in range(16,64):
        s0=RotateRight(W[i-15],7)^RotateRight(W[i-15],18)^LShR(W[i-15],3)
        s1=RotateRight(W[i-2],17)^RotateRight(W[i-2],19)^LShR(W[i-2],10)
        W.append(W[i-16]+s0+W[i-7]+s1)
    a,b,c,d,e,f,g,h=H
    for i in range(64):
        S1=RotateRight(e,6)^RotateRight(e,11)^RotateRight(e,25)
        ch=(e&f)^(~e&g)
        t1=h+S1+ch+BitVecVal(K[i],32)+W[i]
        S0=RotateRight(a,2)^RotateRight(a,13)^RotateRight(a,22)
        maj=(a&b)^(a&c)^(b&c)
        t2=S0+maj
        h,g,f,e,d,c,b,a=g,f,e,d+t1,c,b,a,t1+t2
    return [x+y for x,y in zip(H,[a,b,c,d,e,f,g,h])]
# JS-like: numbers as BV64 exact ints; bit ops ToInt32 -> signed result; >>> unsigned
def toi32(x): return Extract(31,0,x)
def s64(x32): return SignExt(32,x32)
def u64(x32): return ZeroExt(32,x32)
def jor(a,b): return s64(toi32(a)|toi32(b))
def jand(a,b): return s64(toi32(a)&toi32(b))
def jxor(a,b): return s64(toi32(a)^toi32(b))
def jnot(a): return s64(~toi32(a))
def jshl(a,n): return s64(toi32(a)<<n)
def jushr(a,n): return u64(LShR(toi32(a),n))
def jrotr(v,b): return jor(jushr(v,b), jshl(v,32-b))
def js_block(H, chunk, mut=False):
    words=[]
    for i in range(16):
        j=i*4
        w=jushr(jor(jor(jor(jshl(chunk[j],24),jshl(chunk[j+1],16)),jshl(chunk[j+2],8)),chunk[j+3]),0)
        words.append(w)
    for i in range(16,64):
        s0=jxor(jxor(jrotr(words[i-15],7),jrotr(words[i-15],18)),jushr(words[i-15],3))
        s1=jxor(jxor(jrotr(words[i-2],17),jrotr(words[i-2],19)),jushr(words[i-2],10))
        words.append(jushr(words[i-16]+s0+words[i-7]+s1,0))
    a,b,c,d,e,f,g,h=H
    for i in range(64):
        s1=jxor(jxor(jrotr(e,6),jrotr(e,11)),jrotr(e,25))
        ch=jxor(jand(e,f),jand(jnot(e),g))
        temp1=jushr(h+s1+ch+BitVecVal(K[i],64)+words[i],0)
        s0=jxor(jxor(jrotr(a,2),jrotr(a,13)),jrotr(a, 21 if (mut and i==37) else 22))
        maj=jxor(jxor(jand(a,b),jand(a,c)),jand(b,c))
        temp2=jushr(s0+maj,0)
        h,g,f,e,d,c,b,a=g,f,e,jushr(d+temp1,0),c,b,a,jushr(temp1+temp2,0)
    return [jushr(x+y,0) for x,y in zip(H,[a,b,c,d,e,f,g,h])]
bytes_=[BitVec(f"b{i}",8) for i in range(64)]
M=[Concat(bytes_[4*i],bytes_[4*i+1],bytes_[4*i+2],bytes_[4*i+3]) for i in range(16)]
chunk=[ZeroExt(56,x) for x in bytes_]
for mut in (False,True):
    r=ref_block([BitVecVal(x,32) for x in H0],M)
    j=js_block([BitVecVal(x,64) for x in H0],chunk,mut)
    s=Solver(); s.set("timeout",120000)
    s.add(Or([toi32(x)!=y for x,y in zip(j,r)]))
    t=time.time(); res=s.check(); print("mut" if mut else "orig",res,round(time.time()-t,2),"s")
