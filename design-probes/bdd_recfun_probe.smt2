(set-option :smt.random_seed 1)
(declare-datatypes ((Bdd 0)) (((T) (F) (N (atom Int) (l Bdd) (m Bdd) (r Bdd)))))
(declare-fun asg (Int) Bool)
(define-fun-rec ev ((b Bdd)) Bool
  (ite ((_ is T) b) true (ite ((_ is F) b) false
    (or (and (asg (atom b)) (ev (l b))) (ev (m b)) (and (not (asg (atom b))) (ev (r b)))))))
(define-fun-rec depth ((b Bdd)) Int
  (ite ((_ is N) b) (+ 1 (let ((a (depth (l b))) (c (depth (m b))) (d (depth (r b)))) (ite (>= a c) (ite (>= a d) a d) (ite (>= c d) c d)))) 0))
(define-fun-rec ordered ((b Bdd) (lo Int)) Bool
  (ite ((_ is N) b) (and (>= (atom b) lo) (< (atom b) 3) (ordered (l b) (+ 1 (atom b))) (ordered (m b) (+ 1 (atom b))) (ordered (r b) (+ 1 (atom b)))) true))
(define-funs-rec (
  (union ((b1 Bdd) (b2 Bdd)) Bdd)
  (from_node ((a Int) (le Bdd) (mi Bdd) (ri Bdd)) Bdd)
  (intersect ((b1 Bdd) (b2 Bdd)) Bdd)
  (diff ((b1 Bdd) (b2 Bdd)) Bdd)
  (compl ((b Bdd)) Bdd))
 (
  ; union
  (ite (= b1 b2) b1
   (ite ((_ is T) b1) T (ite ((_ is F) b1) b2 (ite ((_ is T) b2) T (ite ((_ is F) b2) b1
    (ite (< (atom b1) (atom b2)) (from_node (atom b1) (l b1) (union (m b1) b2) (r b1))
    (ite (> (atom b1) (atom b2)) (from_node (atom b2) (l b2) (union b1 (m b2)) (r b2))
      (from_node (atom b1) (union (l b1) (l b2)) (union (m b1) (m b2)) (union (r b1) (r b2))))))))))
  ; from_node
  (ite (= mi T) T (ite (= le ri) (union le mi) (N a le mi ri)))
  ; intersect
  (ite (= b1 b2) b1
   (ite ((_ is T) b1) b2 (ite ((_ is F) b1) F (ite ((_ is T) b2) b1 (ite ((_ is F) b2) F
    (ite (< (atom b1) (atom b2)) (from_node (atom b1) (intersect (l b1) b2) (intersect (m b1) b2) (intersect (r b1) b2))
    (ite (> (atom b1) (atom b2)) (from_node (atom b2) (intersect b1 (l b2)) (intersect b1 (m b2)) (intersect b1 (r b2)))
      (from_node (atom b1) (intersect (union (l b1) (m b1)) (union (l b2) (m b2))) F (intersect (union (r b1) (m b1)) (union (r b2) (m b2)))))))))))
  ; diff
  (ite (= b1 b2) F
   (ite ((_ is T) b2) F (ite ((_ is F) b2) b1 (ite ((_ is T) b1) (compl b2) (ite ((_ is F) b1) F
    (ite (< (atom b1) (atom b2)) (from_node (atom b1) (diff (union (l b1) (m b1)) b2) F (diff (union (r b1) (m b1)) b2))
    (ite (> (atom b1) (atom b2)) (from_node (atom b2) (diff b1 (union (l b2) (m b2))) F (diff b1 (union (r b2) (m b2))))
      (from_node (atom b1) (diff (union (l b1) (m b1)) (union (l b2) (m b2))) F (diff (union (r b1) (m b1)) (union (r b2) (m b2)))))))))))
  ; compl
  (ite ((_ is T) b) F (ite ((_ is F) b) T
    (ite (= (r b) F) (from_node (atom b) F (compl (union (l b) (m b))) (compl (m b)))
    (ite (= (l b) F) (from_node (atom b) (compl (m b)) (compl (union (r b) (m b))) F)
    (ite (= (m b) F) (from_node (atom b) (compl (l b)) (compl (union (l b) (r b))) (compl (r b)))
      (from_node (atom b) (compl (union (l b) (m b))) F (compl (union (r b) (m b)))))))))
 ))
(declare-const x Bdd)
(declare-const y Bdd)
(assert (ordered x 0))
(assert (ordered y 0))
(assert (<= (depth x) DEPTH))
(assert (<= (depth y) DEPTH))
(push)
(assert (not (= (ev (union x y)) (or (ev x) (ev y)))))
(check-sat)
(pop)
(push)
(assert (not (= (ev (intersect x y)) (and (ev x) (ev y)))))
(check-sat)
(pop)
(push)
(assert (not (= (ev (diff x y)) (and (ev x) (not (ev y))))))
(check-sat)
(pop)
(push)
(assert (not (= (ev (compl x)) (not (ev x)))))
(check-sat)
(pop)
