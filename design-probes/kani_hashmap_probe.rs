use std::collections::HashMap;
use std::rc::Rc;

#[derive(Clone, PartialEq, Eq, Hash)]
struct FName(Rc<String>);

#[cfg(kani)]
#[kani::proof]
#[kani::unwind(40)]
fn cache_hist() {
    let mut files: HashMap<FName, Rc<u8>> = HashMap::new();
    let a = FName(Rc::new("a.ts".to_string()));
    let b = FName(Rc::new("b.ts".to_string()));
    let mut cur_a: u8 = 0; // 0 = initial content, 1 = variant, 2 = broken
    let mut cur_b: u8 = 0;
    for _ in 0..2 {
        let which: bool = kani::any();
        let c: u8 = kani::any();
        kani::assume(c < 3);
        if which { cur_a = c; if c != 2 { files.insert(a.clone(), Rc::new(c)); } }
        else { cur_b = c; if c != 2 { files.insert(b.clone(), Rc::new(c)); } }
    }
    if let Some(v) = files.get(&a) { assert!(**v == cur_a); }
    std::mem::forget(files);
}
