"""C06 layer 3: ProperSubtypeOps::{intersect,union,diff,complement} on the literal-set tags
(Boolean, Number, String, TypedArray, VoidUndefined) executed from MIR with the real sub_vec_* underneath.
Symbolic: every literal, the probe value; forked: allowed flags, list lengths (<= bound)."""
import time, itertools
import z3
from mirsym.interp import (Engine, Explorer, Adt, SymEnum, RcV, Cell, Ptr, Tup, VecV, StrV, choose, Abort, Unmodelled,
                           BoundHit, Panic)

KINDS = ['Number', 'String', 'TypedArray', 'VoidUndefined', 'Boolean']
_ctr = [0]


def fresh(name, w):
    _ctr[0] += 1
    return z3.BitVec(f'{name}_{_ctr[0]}', w)


def mk_elem(st, kind, name, frac=False):
    """returns (value for the interpreter, semantic key tuple of z3 terms)"""
    if kind == 'Number':
        i = fresh(name + '_int', 64)
        if frac:
            f = fresh(name + '_frac', 64)
            n = Adt('N', None, [i, Adt('Option', 'Some', [f])])
            key = (i, f)
        else:
            n = Adt('N', None, [i, Adt('Option', 'None', [])])
            key = (i,)
        return Adt('NumberRepresentationOrFormat', 'Lit', [n]), key
    if kind == 'String':
        s = fresh(name + '_str', 16)
        item = Adt('TplLitTypeItem', 'StringConst', [StrV(id=s)])
        return Adt('StringLitOrFormat', 'Tpl', [Adt('TplLitType', None, [VecV([item])])]), (s,)
    if kind == 'TypedArray':
        d = fresh(name + '_tak', 64)
        st.pc.append(z3.ULT(d, 11))
        return SymEnum('TypedArrayKind', d), (d,)
    if kind == 'VoidUndefined':
        d = fresh(name + '_vu', 64)
        st.pc.append(z3.ULT(d, 2))
        return SymEnum('VoidUndefinedSubtype', d), (d,)
    raise Exception(kind)


def key_eq(a, b):
    return z3.And([x == y for x, y in zip(a, b)])


def member_list(x, keys):
    return z3.Or([key_eq(x, k) for k in keys]) if keys else z3.BoolVal(False)


def mk_proper(st, kind, allowed, n, name, frac=False):
    """ProperSubtype value + membership predicate (function of probe key)"""
    if kind == 'Boolean':
        b = z3.Bool(f'{name}_b{_ctr[0]}')
        _ctr[0] += 1
        return Adt('ProperSubtype', 'Boolean', [b]), (lambda x: x[0] == z3.If(b, z3.BitVecVal(1, 64), z3.BitVecVal(0, 64))), [b]
    elems, keys = [], []
    for i in range(n):
        v, k = mk_elem(st, kind, f'{name}{i}', frac)
        elems.append(v)
        keys.append(k)
    val = Adt('ProperSubtype', kind, [allowed, VecV(elems)])
    if allowed:
        return val, (lambda x: member_list(x, keys)), keys
    return val, (lambda x: z3.Not(member_list(x, keys))), keys


def extract_key(kind, v):
    """semantic key of an element value found in a result list"""
    if kind == 'Number':
        n = v.fields[0]
        frac = n.fields[1]
        return (n.fields[0],) + ((frac.fields[0],) if frac.variant == 'Some' else ())
    if kind == 'String':
        item = v.fields[0].fields[0].items[0]
        return (item.fields[0].id,)
    return (v.d if isinstance(v, SymEnum) else None,)


def membership_of_subtype(eng, kind, res, xkey):
    """res: Adt SubType (True/False/Proper) -> z3 Bool for probe in res, plus the tag it claims"""
    if res.variant == 'True':
        return z3.BoolVal(True), res.fields[0]
    if res.variant == 'False':
        return z3.BoolVal(False), res.fields[0]
    p = res.fields[0]
    p = p.cell.v if isinstance(p, RcV) else p
    return membership_of_proper(kind, p, xkey), None


def membership_of_proper(kind, p, xkey):
    if p.variant != kind:
        return None
    if kind == 'Boolean':
        b = p.fields[0]
        bb = b if z3.is_expr(b) else z3.BoolVal(bool(b))
        return xkey[0] == z3.If(bb, z3.BitVecVal(1, 64), z3.BitVecVal(0, 64))
    allowed, vec = p.fields
    keys = [extract_key(kind, e) for e in vec.items]
    if any(len(k) != len(xkey) for k in keys):
        # a literal of another shape (e.g. integer vs fractional) can never equal the probe
        keys = [k for k in keys if len(k) == len(xkey)]
    ml = member_list(xkey, keys)
    if z3.is_expr(allowed):
        return z3.If(allowed, ml, z3.Not(ml))
    return ml if allowed else z3.Not(ml)


TAGS = {'Boolean': 'Boolean', 'Number': 'Number', 'String': 'String', 'TypedArray': 'TypedArray', 'VoidUndefined': 'VoidUndefined',
        'Mapping': 'Mapping', 'List': 'List', 'Map': 'Map', 'Set': 'Set'}
DIAG_KINDS = ('Mapping', 'List', 'Map', 'Set')


def run_diag_case(eng, op, kind, reach_twin=False, spec_override=None):
    """the four diagram-backed tags: ProperSubtype::<kind>(Rc<Bdd>) operands with opaque diagrams (symbolic 16-bit tables, the BDD operations by
    their layer-1 contracts).  Meaning of the resulting SubType = (tag, table): Proper(<kind>(d)) -> (kind, tt(d)); True(tag) -> (tag, all ones);
    False(tag) -> (tag, zeros).  Obligation: tag = kind and table = the set operation of the operand tables."""
    from checks import c06_bdd
    from checks.c06_bdd import OpaqueBdd, tt_of, spec_contract, from_node_contract, fn_name
    ix = eng.ix
    c06_bdd.ENG = eng
    eng.contracts.clear()
    for o in ('union', 'intersect', 'diff', 'complement'):
        eng.contracts[fn_name(ix, o)] = spec_contract(o)
    eng.contracts[fn_name(ix, 'from_node')] = from_node_contract
    target = ix.get(ix.traitimpl[('ProperSubtypeOps', 'Rc<ProperSubtype>', op)])
    ex = Explorer(max_paths=20000)

    def body(st):
        x = OpaqueBdd(st, kind=kind)
        p1 = Adt('ProperSubtype', kind, [RcV(Cell(x))])
        r1 = RcV(Cell(p1))
        if op == 'complement':
            res = eng.call_fn(st, target, [Ptr(Cell(r1))])
            p = res.cell.v if isinstance(res, RcV) else res
            if p.variant != kind:
                return ('tag', None, None, {})
            return (~x.tt, tt_of(p.fields[0]), True, {'x': x.tt})
        y = OpaqueBdd(st, kind=kind)
        p2 = Adt('ProperSubtype', kind, [RcV(Cell(y))])
        r2 = RcV(Cell(p2))
        res = eng.call_fn(st, target, [Ptr(Cell(r1)), Ptr(Cell(r2))])
        if res.variant != 'Ok':
            return ('err', None, None, {})
        sub = res.fields[0].cell.v
        spec = spec_override or op
        expect = {'union': x.tt | y.tt, 'intersect': x.tt & y.tt, 'diff': x.tt & ~y.tt}[spec]
        info = {'x': x.tt, 'y': y.tt}
        if sub.variant in ('True', 'False'):
            if sub.fields[0].variant != kind:
                return ('tag', None, None, info)
            # layer 4 drops a `True` coming out of intersect / diff and a `False` out of union: for proper operands they must not occur
            if (sub.variant == 'True' and op != 'union') or (sub.variant == 'False' and op == 'union'):
                return ('kind', None, None, info)
            return (expect, z3.BitVecVal(0xFFFF if sub.variant == 'True' else 0, 16), True, info)
        p = sub.fields[0]
        p = p.cell.v if isinstance(p, RcV) else p
        if p.variant != kind:
            return ('tag', None, None, info)
        return (expect, tt_of(p.fields[0]), True, info)

    results = ex.run(body)
    sat, nq, t_s, samples = [], 0, 0.0, []
    for st, (expect, got, ok, info) in results:
        if isinstance(expect, str):
            s = z3.Solver()
            s.add(st.pc)
            nq += 1
            if s.check() != z3.unsat:
                sat.append((st, s.model() if s.check() == z3.sat else None, {}, {'err': 'returned Err', 'tag': 'result carries the wrong tag',
                                                                               'kind': 'intersect/diff returned the full type or union returned the empty type for proper operands'}[expect]))
            continue
        s = z3.Solver()
        s.add(st.pc)
        s.add(z3.BoolVal(True) if reach_twin else expect != got)
        q0 = time.time()
        r = s.check()
        t_s += time.time() - q0
        nq += 1
        if r == z3.unknown:
            raise Unmodelled('solver unknown')
        if r == z3.sat:
            sat.append((st, s.model(), {}, 'table of the result differs from the set operation'))
        if not samples:
            samples.append({'op': op, 'kind': kind, 'decisions': ''.join(map(str, st.decisions)), 'obligation': f'{z3.simplify(got)} == {z3.simplify(expect)}'[:240]})
    return {'paths': len(results), 'obligation_queries': nq, 'feasibility_queries': ex.queries, 'solver_s': ex.solver_time + t_s, 'sat': sat, 'samples': samples}


def run_case(eng, op, kind, a1, a2, n1, n2, frac=False, reach_twin=False, spec_override=None, max_paths=60000, shard=None, kinds_only=False):
    """kinds_only (VoidUndefined): only the shape of the result is an obligation (right tag; no `True` out of intersect/diff and no `False` out of
    union for proper operands - layer 4 relies on that); the membership obligation is skipped because `undefined <: void` makes "literal set" the
    wrong meaning function for this tag."""
    if kind in DIAG_KINDS:
        return run_diag_case(eng, op, kind, reach_twin=reach_twin, spec_override=spec_override)
    ix = eng.ix
    target = ix.get(ix.traitimpl[('ProperSubtypeOps', 'Rc<ProperSubtype>', op)])
    ex = Explorer(max_paths=max_paths, shard=shard, shard_depth=8)

    def body(st):
        p1, mem1, k1 = mk_proper(st, kind, a1, n1, 'a', frac)
        if kind == 'Boolean':
            xkey = (fresh('probe', 64),)
            st.pc.append(z3.ULT(xkey[0], 2))
        else:
            _, xkey = mk_elem(st, kind, 'probe', frac)
        r1 = RcV(Cell(p1))
        if op == 'complement':
            res = eng.call_fn(st, target, [Ptr(Cell(r1))])
            got = membership_of_proper(kind, res.cell.v, xkey)
            return (z3.Not(mem1(xkey)), got, True, {'a': p1})
        p2, mem2, k2 = mk_proper(st, kind, a2, n2, 'b', frac)
        r2 = RcV(Cell(p2))
        res = eng.call_fn(st, target, [Ptr(Cell(r1)), Ptr(Cell(r2))])
        if res.variant != 'Ok':
            return ('err', None, None, {'a': p1, 'b': p2})
        sub = res.fields[0].cell.v
        got, tag = membership_of_subtype(eng, kind, sub, xkey)
        m1, m2 = mem1(xkey), mem2(xkey)
        spec = spec_override or op
        expect = {'union': z3.Or(m1, m2), 'intersect': z3.And(m1, m2), 'diff': z3.And(m1, z3.Not(m2))}[spec]
        tag_ok = True if tag is None else (tag.variant == TAGS[kind])
        # side obligation used by layer 4's contracts: no `True` from intersect/diff, no `False` from union
        if (sub.variant == 'True' and op != 'union') or (sub.variant == 'False' and op == 'union'):
            # legal only when it is semantically right, which for proper operands never happens; report as mismatch
            tag_ok = tag_ok and None
        return (expect, got, tag_ok, {'a': p1, 'b': p2, 'res': sub})

    results = ex.run(body)
    sat = []
    nq = 0
    t_s = 0.0
    samples = []
    for st, (expect, got, tag_ok, info) in results:
        if isinstance(expect, str):
            sat.append((st, None, info, 'returned Err'))
            continue
        if got is None or tag_ok is False or tag_ok is None:
            # a violation of the result's shape on a feasible path: any model of the path condition is a witness for the native replay
            s = z3.Solver()
            s.add(st.pc)
            nq += 1
            model = s.model() if s.check() == z3.sat else None
            sat.append((st, model, info, 'result carries the wrong tag' if (got is None or tag_ok is False) else
                        'intersect/diff returned the full type or union returned the empty type for proper operands'))
            continue
        if kinds_only:
            nq += 1
            if not samples:
                samples.append({'op': op, 'kind': kind, 'allowed': [a1, a2], 'lens': [n1, n2], 'decisions': ''.join(map(str, st.decisions)), 'obligation': 'shape of the result only'})
            continue
        s = z3.Solver()
        s.add(st.pc)
        s.add(z3.BoolVal(True) if reach_twin else expect != got)
        q0 = time.time()
        r = s.check()
        t_s += time.time() - q0
        nq += 1
        if r == z3.unknown:
            raise Unmodelled('solver unknown')
        if r == z3.sat:
            sat.append((st, s.model(), info, 'membership differs'))
        if not samples:
            samples.append({'op': op, 'kind': kind, 'allowed': [a1, a2], 'lens': [n1, n2], 'decisions': ''.join(map(str, st.decisions)),
                            'obligation': f'probe in result <=> {z3.simplify(expect)}'[:240]})
    return {'paths': len(results), 'obligation_queries': nq, 'feasibility_queries': ex.queries,
            'solver_s': ex.solver_time + t_s, 'sat': sat, 'samples': samples}


def concretise(kind, p, model):
    """ProperSubtype interpreter value -> JSON for the native replay"""
    def ev(t):
        if isinstance(t, (bool, int)):
            return int(t)
        v = model.eval(t, model_completion=True)
        if z3.is_bool(v):
            return z3.is_true(v)
        return v.as_signed_long() if kind == 'Number' else v.as_long()
    if p is None:
        return None
    if isinstance(p, RcV):
        p = p.cell.v
    if p.variant == 'Boolean':
        return {'tag': 'Boolean', 'value': bool(ev(p.fields[0]))}
    allowed, vec = p.fields
    vals = []
    for e in vec.items:
        k = extract_key(kind, e)
        vals.append([ev(t) for t in k])
    return {'tag': kind, 'allowed': bool(ev(allowed)), 'values': vals}
