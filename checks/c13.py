"""C13 — hash256 is real SHA-256 of a canonical structural encoding.
Part 1 (this file, sha layer): Hash256Writer == SHA-256 for every byte string up to N bytes, for the enumerated write splits, and the
framing of the public update* entry points; decided by z3 on the expression DAG that the instrumented real hash.ts produces (E2)."""
import os, sys, json, time, random, subprocess, hashlib, multiprocessing as mp
import z3
from lib.common import Report, Inconclusive, sh, BUILD, REPO, VERIF, ENV, seed, tree_hash
from jsdse import dagz3

PID = 'C13'
RT = os.path.join(BUILD, 'rt')
RTI = os.path.join(BUILD, 'rt-inst')
TSX = os.path.join(BUILD, 'tsx-target', 'debug', 'tsx')
CLIENT = os.path.join(REPO, 'packages/beff-client/src')
FILES = ['codegen-v2', 'hash', 'err', 'openapi-pp', 'b']


def build_tsx():
    src = os.path.join(VERIF, 'tsx')
    try:
        import shutil
        shutil.copyfile(os.path.join(REPO, 'Cargo.lock'), os.path.join(src, 'Cargo.lock'))
    except OSError:
        pass
    sh(['cargo', 'build', '--offline'], cwd=src, env={'CARGO_TARGET_DIR': os.path.join(BUILD, 'tsx-target')}, timeout=1800)
    if not os.path.exists(TSX):
        raise Inconclusive('tsx did not build')


def build_runtime():
    """strip (rt/) and instrument (rt-inst/) the client runtime from /repo's current sources"""
    build_tsx()
    os.makedirs(RT, exist_ok=True)
    os.makedirs(RTI, exist_ok=True)
    for f in FILES:
        for mode, out in (('strip', RT), ('instrument', RTI)):
            r = subprocess.run([TSX, mode, os.path.join(CLIENT, f + '.ts')], stdout=subprocess.PIPE, stderr=subprocess.PIPE, text=True)
            if r.returncode != 0:
                raise Inconclusive(f'tsx {mode} {f}.ts failed: {r.stderr[-500:]}')
            with open(os.path.join(out, f + '.mjs'), 'w') as fh:
                fh.write(r.stdout)
    stub = 'export const z = { custom: () => { throw new Error("zod is not available in this sandbox"); } };\n'
    for d in (RT, RTI):
        with open(os.path.join(d, 'zod-stub.mjs'), 'w') as fh:
            fh.write(stub)
    import shutil
    shutil.copyfile(os.path.join(VERIF, 'jsdse', 'S.mjs'), os.path.join(RTI, 'S.mjs'))
    shutil.copyfile(os.path.join(VERIF, 'jsdse', 'S.mjs'), os.path.join(RT, 'S.mjs'))   # helpers only: the stripped code does not use it


def node(script, *args, timeout=120):
    r = subprocess.run(['node', '--stack-size=4000', script] + list(args), stdout=subprocess.PIPE, stderr=subprocess.PIPE, text=True, timeout=timeout, env=ENV)
    if r.returncode != 0:
        raise Inconclusive(f'node {os.path.basename(script)} failed: {r.stderr[-800:]}')
    return r.stdout


HEXS = '0123456789abcdef'
_CACHE = {}


def expected_stream(spec, in_vars):
    """message bytes (z3 BV8 terms) that the reference hashes for this spec"""
    if spec['mode'] == 'bytes':
        return [in_vars[f'm{i}'] for i in range(spec['n'])]
    out = []

    def u32(n):
        return [z3.BitVecVal((n >> s) & 255, 8) for s in (24, 16, 8, 0)]
    k = 0
    for op in spec['ops']:
        if op[0] in ('tag', 'string'):
            out.append(z3.BitVecVal(1 if op[0] == 'tag' else 2, 8))
            out += u32(op[1])
            out += [in_vars[f's{k}_{i}'] for i in range(op[1])]
            k += 1
        elif op[0] in ('cstring', 'ctag'):
            raw = op[1].encode('utf-8')
            out.append(z3.BitVecVal(1 if op[0] == 'ctag' else 2, 8))
            out += u32(len(raw))
            out += [z3.BitVecVal(b, 8) for b in raw]
        elif op[0] == 'number':
            txt = op[1] if isinstance(op[1], str) else (str(op[1]) if not float(op[1]).is_integer() else str(int(op[1])))
            out.append(z3.BitVecVal(3, 8))
            out += u32(len(txt))
            out += [z3.BitVecVal(ord(c), 8) for c in txt]
        elif op[0] == 'boolean':
            out.append(z3.BitVecVal(4 if op[1] else 5, 8))
        elif op[0] == 'null':
            out.append(z3.BitVecVal(6, 8))
    return out


def input_names(spec):
    if spec['mode'] == 'bytes':
        return [(f'm{i}', 255) for i in range(spec['n'])]
    names = []
    k = 0
    for op in spec['ops']:
        if op[0] in ('tag', 'string'):
            names += [(f's{k}_{i}', 127) for i in range(op[1])]
            k += 1
    return names


def check_spec(spec):
    """returns dict(status='proved'|'counterexample'|'inconclusive', ...)"""
    t0 = time.time()
    out = json.loads(node(os.path.join(VERIF, 'jsdse', 'sha_harness.mjs'), os.path.join(RTI, 'hash.mjs'), json.dumps(spec)))
    if not out.get('ok'):
        return {'status': 'inconclusive', 'why': ('unmodelled: ' if out.get('unmodelled') else 'exception in the code under test: ') + str(out.get('error'))[:200],
                'exception': not out.get('unmodelled'), 'spec': spec}
    nodes = out['dag']['nodes']
    outputs = out['dag']['outputs']
    names = input_names(spec)
    in_vars = {n: z3.BitVec(n, 8) for n, _ in names}
    msg = expected_stream(spec, in_vars)
    rng = random.Random(1234 + len(nodes))
    runs_env = []
    for _ in range(3):
        runs_env.append({n: rng.randrange(0, hi + 1) for n, hi in names})
    # concrete byte streams for the reference runs
    ref_runs = []
    impl_runs = []
    for env in runs_env:
        model = [(z3.BitVec(n, 8), z3.BitVecVal(v, 8)) for n, v in env.items()]
        mbytes = [z3.simplify(z3.substitute(b, *model)).as_long() if model else z3.simplify(b).as_long() for b in msg]
        pts, Hc, _ = dagz3.reference_points(mbytes, dagz3.IOps, None)
        ref_runs.append([p[2] for p in pts])
        impl_runs.append(dagz3.eval_concrete(nodes, env))
    ref_pts, Hz, padded = dagz3.reference_points(msg, dagz3.ZOps, None)
    sw = dagz3.Sweeper(cache=_CACHE)
    R = sw.sweep(nodes, in_vars, ref_pts, ref_runs, impl_runs)
    # digest obligations
    if len(outputs) != 64:
        return {'status': 'counterexample-shape', 'why': f'digest has {len(outputs)} characters', 'spec': spec}
    failed = []
    digest_concrete = None
    if not names:
        digest_concrete = hashlib.sha256(bytes(z3.simplify(b).as_long() for b in msg)).hexdigest()
    for k, o in enumerate(outputs):
        word = Hz[k // 8]
        sh_ = 28 - 4 * (k % 8)
        exp = z3.ZeroExt(28, z3.Extract(sh_ + 3, sh_, word))
        if 'ch' in o:
            if digest_concrete is None or o['ch'] != digest_concrete[k]:
                # a constant character although the digest depends on the input (or a wrong constant)
                failed.append(k)
            continue
        if o['str'] != HEXS:
            failed.append(k)
            continue
        ok = sw.prove_equal(z3.Extract(31, 0, R[o['idx']]), exp, f'digest nibble {k}')
        if not ok:
            failed.append(k)
    res = {'spec': spec, 'nodes': len(nodes), 'cut_points_proved': sw.proved, 'unproved': len(sw.unproved), 'queries': sw.queries, 'cache_hits': sw.cache_hits,
           'solver_s': round(sw.solver_s, 3), 'samples': sw.samples, 'wall': round(time.time() - t0, 2)}
    if not failed and not sw.unproved:
        res['status'] = 'proved'
        return res
    if not failed and sw.unproved:
        # all digest nibbles were proved equal although some cut points found no partner: still a proof of the property
        res['status'] = 'proved'
        return res
    # search a counterexample: monolithic miter under cube assumptions (most message bytes fixed)
    s = z3.Solver()
    s.set('timeout', 60000)
    for name, definition, var in ref_pts:
        s.add(var == definition)
    for u, d, i in sw.defs:
        s.add(u == d)
    for n, hi in names:
        if hi < 255:
            s.add(z3.ULE(in_vars[n], hi))
    diffs = []
    for k in failed:
        o = outputs[k]
        word = Hz[k // 8]
        sh_ = 28 - 4 * (k % 8)
        exp = z3.ZeroExt(28, z3.Extract(sh_ + 3, sh_, word))
        if 'idx' in o and o.get('str') == HEXS:
            diffs.append(z3.Extract(31, 0, R[o['idx']]) != exp)
        else:
            diffs.append(z3.BoolVal(True))
    s.add(z3.Or(diffs))
    model = None
    for attempt in range(6):
        s.push()
        free = set(rng.sample([n for n, _ in names], min(2, len(names)))) if names else set()
        for n, hi in names:
            if n not in free:
                s.add(in_vars[n] == rng.randrange(0, hi + 1))
        t1 = time.time()
        r = s.check()
        res['solver_s'] = round(res['solver_s'] + time.time() - t1, 3)
        res['queries'] += 1
        if r == z3.sat:
            model = s.model()
            s.pop()
            break
        s.pop()
    if model is None:
        r = s.check()
        if r == z3.sat:
            model = s.model()
    if model is None:
        res['status'] = 'inconclusive'
        res['why'] = f'{len(failed)} digest nibbles not proved equal and no counterexample found within the time cap'
        return res
    env = {n: model.eval(in_vars[n], model_completion=True).as_long() for n, _ in names}
    res['status'] = 'counterexample'
    res['model'] = env
    return res


def replay_spec(spec, env):
    if spec['mode'] == 'bytes':
        rs = {'bytes': [env.get(f'm{i}', 0) for i in range(spec['n'])], 'splits': spec['splits']}
    else:
        ops = []
        k = 0
        for op in spec['ops']:
            if op[0] in ('tag', 'string'):
                ops.append([op[0], ''.join(chr(env.get(f's{k}_{i}', 97)) for i in range(op[1]))])
                k += 1
            elif op[0] == 'null':
                ops.append(['null', None])
            else:
                ops.append([op[0], op[1]])
        rs = {'ops': ops}
    out = json.loads(node(os.path.join(VERIF, 'jsdse', 'sha_replay.mjs'), os.path.join(RT, 'hash.mjs'), json.dumps(rs)))
    return rs, out


def _task(spec):
    try:
        return check_spec(spec)
    except Inconclusive as e:
        return {'status': 'inconclusive', 'why': str(e)[:300], 'spec': spec}
    except Exception:
        import traceback
        return {'status': 'inconclusive', 'why': 'checker error: ' + traceback.format_exc()[-500:], 'spec': spec}


def sha_specs(tier):
    N = 130 if tier == 'quick' else 200
    specs = [{'mode': 'bytes', 'n': n, 'splits': []} for n in range(0, N + 1)]
    bounds = [55, 56, 64, 119, 120, 128, 183, 184, 192]
    if tier == 'quick':
        for n in sorted(set(x for b in bounds for x in range(b - 2, b + 3) if x <= N)) + [N]:
            cuts = sorted(set(c for b in bounds for c in range(b - 2, b + 3) if 0 < c < n) | {1})
            for c in cuts:
                if c < n:
                    specs.append({'mode': 'bytes', 'n': n, 'splits': [c]})
    else:
        for n in range(1, N + 1):
            for c in range(1, n):
                if n <= 70 or any(abs(c - b) <= 3 for b in bounds + [0, n]) or any(abs(n - b) <= 2 for b in bounds):
                    specs.append({'mode': 'bytes', 'n': n, 'splits': [c]})
        for n in (57, 64, 65, 120, 128, 129):
            for c1 in (1, 55, 56, 63, 64):
                for c2 in (56, 57, 64, 65, 119, 120, 127, 128):
                    if c1 < c2 < n:
                        specs.append({'mode': 'bytes', 'n': n, 'splits': [c1, c2]})
    api = [
        [['tag', 3], ['string', 5], ['number', 1.5], ['boolean', True], ['null']],
        [['string', 0], ['string', 1], ['number', 'NaN'], ['number', '-0'], ['boolean', False]],
        [['tag', 6], ['string', 50]], [['tag', 6], ['string', 45]], [['tag', 6], ['string', 44]], [['string', 59]], [['string', 60]],
        [['tag', 5], ['string', 120], ['null']], [['number', 12345], ['tag', 2], ['string', 51], ['string', 64]],
        [['null'], ['null'], ['boolean', True], ['tag', 1]],
        [['cstring', 'h\u00e9llo'], ['string', 4]], [['ctag', '\u65e5\u672c'], ['cstring', 'x\U0001F600y'], ['string', 40]], [['cstring', '\u00df' * 30], ['tag', 3]],
        # strings of three-byte characters around 21 / 22 / 32 / 33 UTF-16 code units (a 64-byte buffer holds 21 of them)
        [['cstring', '\u20ac' * 21], ['ctag', '\u20ac' * 22]], [['cstring', '\u65e5' * 32], ['null']], [['ctag', '\u20ac' * 25 + 'ab'], ['cstring', '\u65e5' * 33]],
        [['cstring', 'a' * 31 + '\u20ac'], ['cstring', '\u00e9' * 32], ['string', 33]],
    ]
    if tier != 'quick':
        for L in range(40, 70):
            api.append([['tag', 4], ['string', L], ['boolean', True]])
    specs += [{'mode': 'api', 'ops': ops} for ops in api]
    return specs


def sha_layer(rep, tier):
    specs = sha_specs(tier)
    rng = random.Random(seed())
    rng.shuffle(specs)
    specs.sort(key=lambda s: -(s.get('n', 0) if s['mode'] == 'bytes' else 100))
    agg = {'specs': len(specs), 'proved': 0, 'counterexamples': 0, 'inconclusive': 0, 'queries': 0, 'cache_hits': 0, 'solver_s': 0.0,
           'cut_points_proved': 0, 'dag_nodes': 0, 'samples': []}
    with mp.Pool(min(16, os.cpu_count() or 4)) as pool:
        for r in pool.imap_unordered(_task, specs, chunksize=4):
            st = r['status']
            agg['queries'] += r.get('queries', 0)
            agg['cache_hits'] += r.get('cache_hits', 0)
            agg['solver_s'] += r.get('solver_s', 0)
            agg['cut_points_proved'] += r.get('cut_points_proved', 0)
            agg['dag_nodes'] += r.get('nodes', 0)
            if st == 'proved':
                agg['proved'] += 1
                if len(agg['samples']) < 3 and r.get('samples'):
                    agg['samples'].append({'spec': r['spec'], 'obligations': r['samples'][:2]})
            elif st == 'counterexample':
                agg['counterexamples'] += 1
                rs, out = replay_spec(r['spec'], r['model'])
                if out['got'] != out['expected']:
                    kind = 'bytes' if r['spec']['mode'] == 'bytes' else 'api'
                    nblk = dagz3.pad_len(r['spec']['n']) if kind == 'bytes' else 0
                    rep.violation(f'c13:sha:{kind}', f'Hash256Writer digest differs from SHA-256 (node:crypto) for {json.dumps(rs)[:200]}: got {out["got"]} expected {out["expected"]}',
                                  {'cmd': 'sha', 'input': rs, 'native': out})
                else:
                    rep.note_inconclusive(f'sha: solver counterexample for {json.dumps(r["spec"])} did not reproduce in the stripped module (encoding problem)')
            elif st == 'counterexample-shape':
                rep.violation('c13:sha:shape', 'digestHex() does not return 64 hex characters: ' + r['why'], {'cmd': 'sha', 'input': r['spec']})
            else:
                agg['inconclusive'] += 1
                if r.get('exception'):
                    # the real code throws on this input: replay concretely
                    rs, out = replay_spec(r['spec'], {})
                    if out['got'] != out['expected']:
                        rep.violation('c13:sha:exception', f'Hash256Writer fails on {json.dumps(rs)[:160]}: {out["got"]}', {'cmd': 'sha', 'input': rs, 'native': out})
                        continue
                rep.note_inconclusive(f'sha {json.dumps(r["spec"])[:120]}: {r.get("why")}')
    agg['solver_s'] = round(agg['solver_s'], 2)
    return agg


def hash32_layer(rep, tier):
    """generateHashFromString / generateHashFromNumbers == the 31-polynomial mod 2^32 (z3 on the recorded DAG), and a solver-found pair of
    colliding property names as adversarial keys for the order-independence clause"""
    out = {'obligations': 0, 'proved': 0, 'colliding_keys': None, 'samples': []}
    harness = os.path.join(VERIF, 'jsdse', 'sha_harness.mjs')

    def dag_terms(spec):
        r = json.loads(node(harness, os.path.join(RTI, 'hash.mjs'), json.dumps(spec)))
        if not r.get('ok'):
            raise Inconclusive('hash32 harness: ' + str(r.get('error')))
        nodes = r['dag']['nodes']
        names = [nd[1] for nd in nodes if nd[0] == 'in']
        in_vars = {n: z3.BitVec(n, 8 if spec['mode'] == 'hash32str' else 32) for n in names}
        # reuse the sweeper's term builder without cut points (tiny DAGs)
        R = [None] * len(nodes)
        for i, nd in enumerate(nodes):
            op = nd[0]
            if op == 'in':
                R[i] = z3.ZeroExt(56, in_vars[nd[1]]) if spec['mode'] == 'hash32str' else z3.SignExt(32, in_vars[nd[1]])
            elif op == 'const':
                R[i] = z3.BitVecVal(int(nd[1]), 64)
            else:
                a = [R[j] for j in nd[1]]
                R[i] = {'add': lambda: a[0] + a[1], 'sub': lambda: a[0] - a[1], 'mul': lambda: a[0] * a[1], 'and': lambda: dagz3.i32z(a[0]) & dagz3.i32z(a[1]),
                        'or': lambda: dagz3.i32z(a[0]) | dagz3.i32z(a[1]), 'xor': lambda: dagz3.i32z(a[0]) ^ dagz3.i32z(a[1]), 'not': lambda: ~dagz3.i32z(a[0]),
                        'shl': lambda: dagz3.i32z(a[0] << nd[2]), 'shr': lambda: dagz3.i32z(a[0]) >> nd[2], 'ushr': lambda: z3.LShR(dagz3.u32z(a[0]), nd[2]),
                        'tou8': lambda: z3.ZeroExt(56, z3.Extract(7, 0, a[0])), 'tou32': lambda: dagz3.u32z(a[0])}[op]()
        return nodes, in_vars, R, r['dag']['outputs']
    def build_terms(nodes, in_vars, mode, cut=None):
        """z3 terms of the DAG; `cut(i, term)` may replace the term of node i (compositional proof)"""
        R = [None] * len(nodes)
        for i, nd in enumerate(nodes):
            op = nd[0]
            if op == 'in':
                R[i] = z3.ZeroExt(56, in_vars[nd[1]]) if mode == 'hash32str' else z3.SignExt(32, in_vars[nd[1]])
            elif op == 'const':
                R[i] = z3.BitVecVal(int(nd[1]), 64)
            else:
                a = [R[j] for j in nd[1]]
                R[i] = {'add': lambda: a[0] + a[1], 'sub': lambda: a[0] - a[1], 'mul': lambda: a[0] * a[1], 'and': lambda: dagz3.i32z(a[0]) & dagz3.i32z(a[1]),
                        'or': lambda: dagz3.i32z(a[0]) | dagz3.i32z(a[1]), 'xor': lambda: dagz3.i32z(a[0]) ^ dagz3.i32z(a[1]), 'not': lambda: ~dagz3.i32z(a[0]),
                        'shl': lambda: dagz3.i32z(a[0] << nd[2]), 'shr': lambda: dagz3.i32z(a[0]) >> nd[2], 'ushr': lambda: z3.LShR(dagz3.u32z(a[0]), nd[2]),
                        'tou8': lambda: z3.ZeroExt(56, z3.Extract(7, 0, a[0])), 'tou32': lambda: dagz3.u32z(a[0])}[op]()
                if cut is not None:
                    R[i] = cut(i, nd, R[i])
        return R
    for mode in ('hash32str', 'hash32nums'):
        for n in range(0, 9 if tier == 'quick' else 17):
            spec = {'mode': mode, 'n': n}
            nodes, in_vars, _, outs = dag_terms(spec)
            # reference h_k = h_{k-1} * 31 + c_k (mod 2^32); every `|= 0` of the implementation is a cut point proved equal to the next h_k,
            # with h_{k-1} a free variable: one small query per character
            state = {'k': 0, 'prev': z3.BitVecVal(0, 32), 'ok': True, 'cex': None}
            const0 = [i for i, nd in enumerate(nodes) if nd[0] == 'const' and nd[1] == '0']

            def cut(i, nd, term):
                if nd[0] == 'or' and any(j in const0 for j in nd[1]) and state['k'] < n:
                    k = state['k']
                    c = in_vars[f's0_{k}']
                    definition = state['prev'] * 31 + (z3.ZeroExt(24, c) if mode == 'hash32str' else c)
                    sv = z3.Solver()
                    sv.set('timeout', 60000)
                    sv.add(z3.Extract(31, 0, term) != definition)
                    out['obligations'] += 1
                    r = sv.check()
                    state['k'] += 1
                    if r == z3.unsat:
                        out['proved'] += 1
                        hk = z3.BitVec(f'h_{k}', 32)
                        state['prev'] = hk
                        return z3.SignExt(32, hk)
                    state['ok'] = False
                    if r == z3.sat:
                        state['cex'] = (k, sv.model())
                    return term
                return term
            R = build_terms(nodes, in_vars, mode, cut)
            o = outs[0]
            final_ok = ('idx' in o and z3.simplify(z3.Extract(31, 0, R[o['idx']])).eq(state['prev'])) or ('value' in o and n == 0 and o['value'] == 0)
            if not final_ok and state['ok'] and 'idx' in o:
                sv = z3.Solver()
                sv.set('timeout', 60000)
                sv.add(z3.Extract(31, 0, R[o['idx']]) != state['prev'])
                final_ok = sv.check() == z3.unsat
                out['obligations'] += 1
                out['proved'] += 1 if final_ok else 0
            if state['ok'] and final_ok and state['k'] == n:
                if len(out['samples']) < 2 and n:
                    out['samples'].append({'function': mode, 'length': n, 'obligation': 'per character: ((h << 5) - h + c) | 0 == h * 31 + c (mod 2^32), h free', 'result': 'unsat x %d' % n})
                continue
            # not proved step by step: look for a concrete input on which the whole function differs from the polynomial
            Rm = build_terms(nodes, in_vars, mode)
            h = z3.BitVecVal(0, 32)
            for i in range(n):
                c = in_vars[f's0_{i}']
                h = h * 31 + (z3.ZeroExt(24, c) if mode == 'hash32str' else c)
            sv = z3.Solver()
            sv.set('timeout', 60000)
            got = z3.Extract(31, 0, Rm[o['idx']]) if 'idx' in o else z3.BitVecVal(o['value'], 32)
            sv.add(got != h)
            r = sv.check()
            if r == z3.sat:
                m = sv.model()
                vals = [m.eval(in_vars[f's0_{i}'], model_completion=True).as_long() for i in range(n)]
                rep.violation(f'c13:hash32:{mode}', f'{mode} differs from the 31-polynomial on {vals}', {'cmd': 'hash32', 'input': {'mode': mode, 'values': vals}})
            else:
                rep.note_inconclusive(f'hash32 {mode} n={n}: not proved step by step and no counterexample found ({r})')
    # adversarial keys: two different 2-character names with the same 32-bit hash, found by z3 on the real function's DAG
    nodes, in_vars, R, outs = dag_terms({'mode': 'hash32str', 'n': 2, 'copies': 2})
    s = z3.Solver()
    for v in in_vars.values():
        s.add(z3.ULE(65, v), z3.ULE(v, 122), z3.Or(z3.ULE(v, 90), z3.ULE(97, v)))
    s.add(z3.Extract(31, 0, R[outs[0]['idx']]) == z3.Extract(31, 0, R[outs[1]['idx']]))
    s.add(z3.Or(in_vars['s0_0'] != in_vars['s1_0'], in_vars['s0_1'] != in_vars['s1_1']))
    if s.check() == z3.sat:
        m = s.model()
        k1 = ''.join(chr(m.eval(in_vars[f's0_{i}'], model_completion=True).as_long()) for i in range(2))
        k2 = ''.join(chr(m.eval(in_vars[f's1_{i}'], model_completion=True).as_long()) for i in range(2))
        out['colliding_keys'] = [k1, k2]
    return out


def encoding_layer(rep, tier, keys):
    """hash256 as an injective encoding: exhaustive small validator trees (concrete runs of the real hash256), grouped by digest; for every group
    of structurally different trees the jsdse engine decides whether the validators disagree on some value (then the digest is not a fingerprint).
    Also: hash()/hash256() must not depend on the insertion order of object properties - checked with the solver-found colliding key names."""
    from checks import valcheck
    script = os.path.join(VERIF, 'jsdse', 'hash_enum.mjs')
    out = {'trees': 0, 'collision_groups': 0, 'pairs_decided': 0, 'order_dependent': 0}
    for kk, orders in ((['a', 'b'], True), (keys, True)):
        if not kk:
            continue
        r = subprocess.run(['node', '--max-old-space-size=8000', script, RT, json.dumps({'depth': 2, 'keys': kk, 'orders': orders})], stdout=subprocess.PIPE, stderr=subprocess.PIPE, text=True, timeout=1200, env=ENV)
        if r.returncode != 0:
            raise Inconclusive('hash_enum failed: ' + r.stderr[-500:])
        d = json.loads(r.stdout)
        out['trees'] += d['trees']
        out['collision_groups'] += d['ncollisions']
        for od in d['orderDependent'][:5]:
            out['order_dependent'] += 1
            which = 'hash256' if not od['hash256_equal'] else 'hash'
            rep.violation(f'c13:{which}:property-order', f'{which}() depends on the insertion order of object properties for keys {kk}: {json.dumps(od["spec"])[:200]} -> {od["hash"]}',
                          {'cmd': 'hash-order', 'input': od})
        jobs = []
        for ci, c in enumerate(d['collisions'][:40 if tier == 'quick' else 200]):
            a, b = c['specs'][0], c['specs'][1]
            job = valcheck.make_job(f'coll{ci}', a, {}, 'C13', tier, hostile=False)
            job['specB'] = b
            job['keyPool'] = sorted(set(job['keyPool']) | valcheck.spec_keys(b, {}))
            jobs.append(job)
        for job in jobs:
            res = valcheck.run_harness(job, RTI, timeout=600)
            out['pairs_decided'] += 1
            if 'harness_error' in res:
                rep.note_inconclusive('encoding layer: harness failed: ' + res['harness_error'][:200])
                continue
            vs = [v for v in res.get('violations', []) if v['prop'] == 'C13']
            if vs:
                v = vs[0]
                rj = dict(job)
                rj['concrete'] = v.get('concrete')
                rr = valcheck.run_harness(rj, RT, timeout=120)
                if [x for x in rr.get('violations', []) if x['prop'] == 'C13']:
                    rep.violation('c13:hash256:collision:' + '+'.join(sorted(valcheck.spec_features(job['spec'], {}) & {'index-sig', 'optional', 'tuple-rest', 'tuple-closed', 'anyof', 'map', 'set', 'array'})),
                                  f'two validators with the same hash256 disagree on {v["input"][:120]}: {json.dumps(job["spec"])[:200]} vs {json.dumps(job["specB"])[:200]}', {'cmd': 'val', 'job': rj})
                else:
                    rep.note_inconclusive('encoding layer: disagreement did not reproduce on the stripped runtime')
    return out


def named_layer(rep, tier):
    """references, aliases and recursion (the enumerated trees of the encoding layer have none):
    (a) pairs of systems that the statement says must share hash() AND hash256(): alias boundaries (an alias used once, twice as siblings, an
        alias of an alias), alias names, property order, union member order - compared concretely on the real runtime;
    (b) pairs of recursive systems with different behaviour (the jsdse engine decides that some value separates them): hash256 must differ."""
    from checks import valcheck
    S, N, NUL = {'t': 'typeof', 'name': 'string'}, {'t': 'typeof', 'name': 'number'}, {'t': 'nullish', 'd': 'null'}
    def O(props): return {'t': 'object', 'props': props, 'index': []}
    def R(n): return {'t': 'ref', 'name': n}
    def U(*xs): return {'t': 'anyof', 'xs': list(xs)}
    def C(v): return {'t': 'const', 'v': v}
    point = O({'x': N, 'y': N})
    same = [
        ('alias-once', ({'P': point}, O({'p': R('P')})), ({}, O({'p': point}))),
        ('alias-twice-siblings', ({'P': point}, O({'from': R('P'), 'to': R('P')})), ({}, O({'from': point, 'to': point}))),
        ('alias-renamed', ({'P': point}, O({'from': R('P'), 'to': R('P')})), ({'Q': point}, O({'from': R('Q'), 'to': R('Q')}))),
        ('alias-named-like-an-Object-prototype-member', ({'toString': point, 'constructor': O({'q': R('toString')})}, O({'p': R('constructor'), 'r': R('toString')})),
                                                        ({'P': point, 'Q': O({'q': R('P')})}, O({'p': R('Q'), 'r': R('P')}))),
        ('recursive-through-alias', ({'L': O({'v': N, 'next': U(R('LA'), NUL)}), 'LA': R('L')}, R('L')), ({'L': O({'v': N, 'next': U(R('L'), NUL)})}, R('L'))),
        ('recursive-children-alias', ({'T': O({'v': N, 'kids': R('Kids')}), 'Kids': {'t': 'array', 'x': R('T')}}, R('T')), ({'T': O({'v': N, 'kids': {'t': 'array', 'x': R('T')}})}, R('T'))),
        ('alias-of-alias', ({'P': point, 'PP': R('P')}, O({'p': R('PP')})), ({'P': point}, O({'p': R('P')}))),
        ('alias-in-array-and-tuple', ({'P': point}, {'t': 'tuple', 'prefix': [R('P')], 'rest': R('P')}), ({}, {'t': 'tuple', 'prefix': [point], 'rest': point})),
        ('property-order', ({}, O({'a': S, 'b': N})), ({}, O({'b': N, 'a': S}))),
        ('recursive-renamed', ({'L': O({'v': N, 'next': U(R('L'), NUL)})}, R('L')), ({'M': O({'v': N, 'next': U(R('M'), NUL)})}, R('M'))),
        ('mutual-renamed', ({'A': O({'k': C('a'), 'n': U(R('B'), NUL)}), 'B': O({'k': C('b'), 'n': U(R('A'), NUL)})}, R('A')),
                           ({'X': O({'k': C('a'), 'n': U(R('Y'), NUL)}), 'Y': O({'k': C('b'), 'n': U(R('X'), NUL)})}, R('X'))),
    ]
    differ = [
        ('mutual-vs-self-tail', ({'A': O({'k': C('a'), 'n': U(R('B'), NUL)}), 'B': O({'k': C('b'), 'n': U(R('A'), NUL)})}, R('A')),
                                ({'A2': O({'k': C('a'), 'n': U(R('B2'), NUL)}), 'B2': O({'k': C('b'), 'n': U(R('B2'), NUL)})}, R('A2'))),
        ('back-edge-target', ({'A': O({'k': C('a'), 'n': O({'k': C('b'), 'n': U(R('A'), NUL)})})}, R('A')),
                             ({'A2': O({'k': C('a'), 'n': R('B2')}), 'B2': O({'k': C('b'), 'n': U(R('B2'), NUL)})}, R('A2'))),
        ('list-of-number-vs-string', ({'L': O({'v': N, 'next': U(R('L'), NUL)})}, R('L')), ({'L2': O({'v': S, 'next': U(R('L2'), NUL)})}, R('L2'))),
    ]
    systems = []
    for name, a, b in same + differ:
        systems.append({'name': name + '/a', 'defs': a[0], 'root': a[1]})
        systems.append({'name': name + '/b', 'defs': b[0], 'root': b[1]})
    r = subprocess.run(['node', os.path.join(VERIF, 'jsdse', 'hash_named.mjs'), RT, json.dumps(systems)], stdout=subprocess.PIPE, stderr=subprocess.PIPE, text=True, timeout=300, env=ENV)
    if r.returncode != 0:
        raise Inconclusive('hash_named failed: ' + r.stderr[-500:])
    res = {x['name']: x for x in json.loads(r.stdout)}
    out = {'same_pairs': len(same), 'differ_pairs': len(differ), 'separated_by_solver': 0}
    for name, a, b in same:
        ra, rb = res[name + '/a'], res[name + '/b']
        if 'error' in ra or 'error' in rb:
            rep.violation(f'c13:named:{name}:throws', f'hash()/hash256() of a system of named types throws: {ra.get("error") or rb.get("error")}', {'cmd': 'hash-named', 'systems': [a, b]})
            continue
        # the 32-bit clause of the statement does not promise independence of the NAMES of recursive types (hash256's clause does)
        # ... and hash256 numbers the open named types along the path, so an alias ON a cycle changes it (known finding same-ir-recursive): hash() only there
        for which in (('hash256',) if name in ('recursive-renamed', 'mutual-renamed') else ('hash',) if name in ('recursive-through-alias', 'recursive-children-alias') else ('hash', 'hash256')):
            if ra[which] != rb[which]:
                rep.violation(f'c13:{which}:named:{name}', f'{which}() differs between two spellings that differ only in {name.replace("-", " ")}: {json.dumps(a)[:200]} -> {ra[which]} vs '
                              f'{json.dumps(b)[:200]} -> {rb[which]}', {'cmd': 'hash-named', 'systems': [a, b], 'result': [ra, rb]})
    # late binding (createNamedType(name, unknown) ... overrideNamedType(name, real), the documented way to build recursive runtime types):
    # the parser is asked for its hashes BEFORE the named types get their real definitions and again afterwards; the second answers must be
    # those of a parser built after the fact (a digest memoised on the parser goes stale)
    for sysd in systems:
        r = res[sysd['name']]
        if 'error' in r or 'late' not in r:
            continue
        for which in ('hash', 'hash256'):
            if r['late'][which] != r[which]:
                rep.violation(f'c13:{which}:stale-after-late-binding', f'{which}() asked before and after the named types were bound returns {r["late"][which]} the second time, a parser built '
                              f'afterwards {r[which]}: {json.dumps(sysd)[:240]}', {'cmd': 'hash-named', 'systems': [sysd], 'result': [r]})
                break
    for name, a, b in differ:
        ra, rb = res[name + '/a'], res[name + '/b']
        if 'error' in ra or 'error' in rb:
            rep.violation(f'c13:named:{name}:throws', f'hash256() throws: {ra.get("error") or rb.get("error")}', {'cmd': 'hash-named', 'systems': [a, b]})
            continue
        # the two systems must really disagree on some value: decided by the engine on a shared symbolic value
        defs = dict(a[0]); defs.update(b[0])
        job = valcheck.make_job('named-' + name, a[1], defs, 'C13', tier, hostile=False)
        job['specB'] = b[1]
        job['maxDepth'] = 3
        rr = valcheck.run_harness(job, RTI, timeout=600)
        if 'harness_error' in rr:
            rep.note_inconclusive('named layer: harness failed: ' + rr['harness_error'][:200])
            continue
        vs = [v for v in rr.get('violations', []) if v['prop'] == 'C13']
        if not vs:
            rep.note_inconclusive(f'named layer: the engine found no value separating the two systems of pair {name} (expected one)')
            continue
        out['separated_by_solver'] += 1
        if ra['hash256'] == rb['hash256']:
            rep.violation(f'c13:hash256:named-collision:{name}', f'two recursive validators that disagree on {vs[0]["input"][:120]} have the same hash256: {json.dumps(a)[:220]} vs {json.dumps(b)[:220]}',
                          {'cmd': 'hash-named', 'systems': [a, b], 'witness': vs[0].get('concrete'), 'result': [ra, rb]})
    return out


def main(tier):
    rep = Report(PID, tier)
    build_runtime()
    sha = sha_layer(rep, tier)
    try:
        h32 = hash32_layer(rep, tier)
    except Inconclusive as e:
        rep.note_inconclusive('hash32 layer: ' + str(e)[:300])
        h32 = {'obligations': 0, 'proved': 0, 'colliding_keys': None, 'samples': []}
    try:
        enc = encoding_layer(rep, tier, h32.get('colliding_keys'))
    except Inconclusive as e:
        rep.note_inconclusive('encoding layer: ' + str(e)[:300])
        enc = {}
    try:
        named = named_layer(rep, tier)
    except Inconclusive as e:
        rep.note_inconclusive('named layer: ' + str(e)[:300])
        named = {}
    coverage = {
        'explanation': 'The real hash.ts is type-stripped and instrumented (tsx, swc) and executed under Node with symbolic message bytes; the $S runtime '
                       'records the exact-integer expression DAG of the digest (JS number semantics, ToInt32/ToUint32 at bit operators). z3 proves the DAG '
                       'equal to FIPS 180-4 compositionally: every `>>> 0` / typed-array store is a cut point proved equal to a reference intermediate value.',
        'evaluations': sha['specs'],
        'distinct_nontrivial': sha['proved'],
        'rule': 'one evaluation = one (message length, write split) or one sequence of public update* calls; all message bytes symbolic; non-trivial = '
                'every digest nibble proved equal to the reference for all 2^(8n) messages',
        'samples': sha['samples'] or [{'spec': 'none'}],
        'obligations': sha['cut_points_proved'], 'queries': sha['queries'], 'cache_hits': sha['cache_hits'], 'solver_s': sha['solver_s'],
        'layers': {'sha256': sha, 'hash32': h32, 'hash256_encoding': enc, 'named_types': named},
        'functions_encoded': ['Hash256Writer.updateBytes', 'Hash256Writer.processChunk', 'Hash256Writer.digestHex', 'rotateRight', 'updateTag/String/Number/Boolean/Null',
                              'updateUtf8WithLength', 'updateUint32'],
        'bounds': 'messages up to %d bytes; one write and the enumerated two-way (thorough: also three-way) splits around block / padding boundaries; '
                  'strings fed through the public API are ASCII (TextEncoder modelled as identity on 7-bit codes)' % (130 if tier == 'quick' else 200),
        'outside_claim': ['messages longer than the bound (bit-length high word)', 'non-ASCII strings through TextEncoder', 'collision resistance of SHA-256'],
    }
    assumptions = ['swc parse/strip/codegen preserves the runtime semantics (differentially tested on concrete inputs)', '$S numeric model: exact integers '
                   'below 2^53 (interval-checked), ToInt32/ToUint32 at bit operators', 'z3 4.8.12', 'node:crypto as concrete reference in replays']
    return rep.finish('other', coverage, assumptions)


def replay(path):
    d = json.load(open(path))
    build_runtime()
    out = json.loads(node(os.path.join(VERIF, 'jsdse', 'sha_replay.mjs'), os.path.join(RT, 'hash.mjs'), json.dumps(d['replay']['input'])))
    print(json.dumps(out))
    return 1 if out['got'] != out['expected'] else 0
