"""C12 — see checks/valcheck.py and DESIGN.md section 5"""
from checks import valcheck

PID = 'C12'


def main(tier):
    rep, agg = valcheck.run(PID, tier)
    return valcheck.finish(rep, agg, PID, tier, EXPLANATION, OUTSIDE)


def replay(path):
    import json
    from checks import c13
    c13.build_runtime()
    d = json.load(open(path))
    r = valcheck.run_harness(d['replay']['job'], valcheck.RT, timeout=120)
    print(json.dumps(r)[:2000])
    return 1 if [v for v in r.get('violations', []) if v['prop'] == PID] else 0

EXPLANATION = ('per rejecting path: 1..10 errors; every path (nested union errors with the parent path prepended) resolves in the input or names a missing '
               'property of an existing object; `received` is identical to the value found there; printErrors and the parse error message do not throw and are '
               'deterministic')
OUTSIDE = ['validators and values beyond the enumerated trees / template bounds', 'custom format error messages']
