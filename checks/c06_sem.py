"""C06 layer 4: SemTypeOps::{intersect,union,diff,complement} and SubTypePairIterator executed from MIR.
Symbolic: the two `all` bitsets, the tag code of every proper-subtype entry (one-hot among the 9 tags that can
carry a proper subtype, strictly ascending, disjoint from `all` - the representation invariant, which is also
asserted of the result), the probe's tag and one membership bit per entry.  Forked: the two list lengths.
Per-tag ProperSubtypeOps calls are replaced by contracts (they are verified in layers 1 and 3)."""
import time
import z3
from mirsym.interp import (Engine, Explorer, Adt, SymEnum, RcV, Cell, Ptr, Tup, VecV, choose, Abort, Unmodelled,
                           BoundHit, Panic)
from mirsym.stdmodel import deref_all

VAL_BITS = list(range(1, 14))
PROPER_BITS = [1, 2, 3, 5, 7, 10, 11, 12, 13]   # Boolean Number String Mapping List VoidUndefined TypedArray Map Set
VAL = sum(1 << b for b in VAL_BITS)
_ctr = [0]


def fresh_bv(name, w=32):
    _ctr[0] += 1
    return z3.BitVec(f'{name}_{_ctr[0]}', w)


def fresh_bool(name):
    _ctr[0] += 1
    return z3.Bool(f'{name}_{_ctr[0]}')


def one_hot(c, bits):
    return z3.Or([c == z3.BitVecVal(1 << b, 32) for b in bits])


class OpaqueProper:
    """a ProperSubtype whose content is unknown: symbolic tag code, symbolic membership of the probe"""
    ty = 'ProperSubtype'

    def __init__(s, code, m):
        s.code = code
        s.m = m

    def __repr__(s):
        return f'Proper<{s.code}>'


def mk_semtype(st, n, name):
    all_ = fresh_bv(name + '_all')
    st.pc.append(all_ & z3.BitVecVal(~VAL & 0xFFFFFFFF, 32) == 0)
    ents = []
    prev = None
    for i in range(n):
        c = fresh_bv(f'{name}_code{i}')
        st.pc.append(one_hot(c, PROPER_BITS))
        st.pc.append(c & all_ == 0)
        if prev is not None:
            st.pc.append(z3.ULT(prev, c))
        prev = c
        ents.append(OpaqueProper(c, fresh_bool(f'{name}_m{i}')))
    val = Adt('ComplexSemType', None, [all_, VecV([RcV(Cell(e)) for e in ents])])
    return val, all_, ents


def member(all_, ents, t):
    return z3.Or([all_ & t != 0] + [z3.And(e.code == t, e.m) for e in ents])


def install_contracts(eng, st_holder, wrong=None):
    ix = eng.ix

    def get_op(v):
        v = deref_all(eng, st_holder[0], v)
        if isinstance(v, RcV):
            v = v.cell.v
        if not isinstance(v, OpaqueProper):
            raise Unmodelled(f'expected opaque proper subtype, got {v!r}')
        return v

    def to_code(st, argv):
        return get_op(argv[0]).code

    def tag(st, argv):
        return SymEnum('SubTypeTag', z3.ZeroExt(32, get_op(argv[0]).code))

    def binop(op):
        def c(st, argv):
            a, b = get_op(argv[0]), get_op(argv[1])
            if not choose(st, 2, [a.code == b.code, a.code != b.code]) == 0:
                raise Panic(f'ProperSubtypeOps::{op} called on entries of different tags')
            spec = wrong.get(op, op) if wrong else op
            m = {'union': z3.Or(a.m, b.m), 'intersect': z3.And(a.m, b.m), 'diff': z3.And(a.m, z3.Not(b.m))}[spec]
            # operands are proper (neither empty nor full), so an intersection/difference is never full and a union is
            # never empty; layer 3 asserts exactly this of the real per-tag operations
            k = choose(st, 3, [None, m if op == 'union' else False, z3.Not(m) if op != 'union' else False])
            tagv = SymEnum('SubTypeTag', z3.ZeroExt(32, a.code))
            if k == 0:
                nm = fresh_bool('res_m')
                st.pc.append(nm == m)
                sub = Adt('SubType', 'Proper', [RcV(Cell(OpaqueProper(a.code, nm)))])
            elif k == 1:
                sub = Adt('SubType', 'True', [tagv])
            else:
                sub = Adt('SubType', 'False', [tagv])
            return Adt('Result', 'Ok', [RcV(Cell(sub))])
        return c

    def compl(st, argv):
        a = get_op(argv[0])
        return RcV(Cell(OpaqueProper(a.code, z3.Not(a.m))))

    eng.contracts.clear()
    eng.contracts[ix.inherent[('ProperSubtype', 'to_code')]] = to_code
    eng.contracts[ix.inherent[('ProperSubtype', 'tag')]] = tag
    for op in ('union', 'intersect', 'diff'):
        eng.contracts[ix.traitimpl[('ProperSubtypeOps', 'Rc<ProperSubtype>', op)]] = binop(op)
    eng.contracts[ix.traitimpl[('ProperSubtypeOps', 'Rc<ProperSubtype>', 'complement')]] = compl


def run_case(eng, op, n1, n2, reach_twin=False, wrong=None, max_paths=100000, shard=None):
    ix = eng.ix
    target = ix.get(ix.traitimpl[('SemTypeOps', 'Rc<ComplexSemType>', op)])
    holder = [None]
    install_contracts(eng, holder, wrong)
    ex = Explorer(max_paths=max_paths, shard=shard, shard_depth=6)

    def body(st):
        holder[0] = st
        t1, all1, e1 = mk_semtype(st, n1, 'x')
        t = fresh_bv('probe_tag')
        st.pc.append(one_hot(t, VAL_BITS))
        m1 = member(all1, e1, t)
        r1 = RcV(Cell(t1))
        if op == 'complement':
            res = eng.call_fn(st, target, [Ptr(Cell(r1))])
            expect = z3.Not(m1)
            inputs = {'x': (all1, e1)}
        else:
            t2, all2, e2 = mk_semtype(st, n2, 'y')
            m2 = member(all2, e2, t)
            r2 = RcV(Cell(t2))
            res = eng.call_fn(st, target, [Ptr(Cell(r1)), Ptr(Cell(r2))])
            expect = {'union': z3.Or(m1, m2), 'intersect': z3.And(m1, m2), 'diff': z3.And(m1, z3.Not(m2))}[op]
            inputs = {'x': (all1, e1), 'y': (all2, e2)}
        if res.variant != 'Ok':
            return ('err', None, None, inputs, t)
        out = res.fields[0].cell.v
        oall = out.fields[0]
        oents = [r.cell.v for r in out.fields[1].items]
        if not all(isinstance(x, OpaqueProper) for x in oents):
            raise Unmodelled('result entry is not an opaque proper subtype')
        got = member(oall, oents, t)
        oall_ = oall if z3.is_expr(oall) else z3.BitVecVal(oall, 32)
        inv = [oall_ & z3.BitVecVal(~VAL & 0xFFFFFFFF, 32) == 0]
        prev = None
        for x in oents:
            inv.append(x.code & oall_ == 0)
            if prev is not None:
                inv.append(z3.ULT(prev, x.code))
            prev = x.code
        return (expect, got, z3.And(inv), inputs, t)

    results = ex.run(body)
    sat = []
    nq = 0
    t_s = 0.0
    samples = []
    for st, (expect, got, inv, inputs, t) in results:
        if isinstance(expect, str):
            sat.append((st, None, inputs, t, 'returned Err'))
            continue
        for label, goal in (('membership differs', expect != got), ('result breaks the representation invariant (tags ascending, disjoint from `all`)', z3.Not(inv))):
            s = z3.Solver()
            s.add(st.pc)
            s.add(z3.BoolVal(True) if reach_twin else goal)
            q0 = time.time()
            r = s.check()
            t_s += time.time() - q0
            nq += 1
            if r == z3.unknown:
                raise Unmodelled('solver unknown')
            if r == z3.sat:
                sat.append((st, s.model(), inputs, t, label))
                break
        if not samples:
            samples.append({'op': op, 'lens': [n1, n2], 'decisions': ''.join(map(str, st.decisions)),
                            'obligation': 'probe in result <=> ' + str(z3.simplify(expect))[:200]})
    return {'paths': len(results), 'obligation_queries': nq, 'feasibility_queries': ex.queries,
            'solver_s': ex.solver_time + t_s, 'sat': sat, 'samples': samples, 'panics': 0}


TAG_NAMES = {1: 'Boolean', 2: 'Number', 3: 'String', 4: 'Null', 5: 'Mapping', 6: 'OptionalProp', 7: 'List', 8: 'BigInt',
             9: 'Date', 10: 'VoidUndefined', 11: 'TypedArray', 12: 'Map', 13: 'Set'}


def concretise(model, inputs, t):
    """JSON description of the operands for the native replay: per operand the `all` bitset and, per entry, the
    tag and whether the probe is a member of that entry"""
    out = {}
    for k, (all_, ents) in inputs.items():
        out[k] = {'all': model.eval(all_, model_completion=True).as_long(),
                  'entries': [{'code': model.eval(e.code, model_completion=True).as_long(),
                               'member': z3.is_true(model.eval(e.m, model_completion=True))} for e in ents]}
    out['probe_tag'] = model.eval(t, model_completion=True).as_long()
    return out
