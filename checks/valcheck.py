"""Shared driver of the runtime-validator checks (C03, C11, C12 and the IR-level query of C01): generates validator jobs
(ad-hoc validator trees built from the runtime classes, and programs compiled by the real compiler), explores each with the
jsdse engine (instrumented real runtime under Node, z3 for symbolic strings/numbers) and replays every violation on the
type-stripped, un-instrumented runtime with the concrete witness before it is reported."""
import re
import os, sys, json, time, random, subprocess, hashlib, tempfile, multiprocessing as mp
from lib.common import Report, Inconclusive, beffdrv, BUILD, REPO, VERIF, ENV, seed
from checks import c13

RT, RTI = c13.RT, c13.RTI
JOBS = os.path.join(BUILD, 'valjobs')

S, N, B = {'t': 'typeof', 'name': 'string'}, {'t': 'typeof', 'name': 'number'}, {'t': 'typeof', 'name': 'boolean'}
NULL = {'t': 'nullish', 'd': 'null'}


def C(v):
    return {'t': 'const', 'v': v}


def O(props, index=None):
    return {'t': 'object', 'props': props, 'index': index or []}


def OPT(x):
    return {'t': 'optional', 'x': x}


FIXED_SPECS = [
    ('obj-opt', O({'a': S, 'b': OPT(N)}), {}),
    ('tuple-closed', {'t': 'tuple', 'prefix': [S, C(1)], 'rest': None}, {}),
    ('tuple-rest', {'t': 'tuple', 'prefix': [S], 'rest': N}, {}),
    ('union-consts-regex-disc', {'t': 'anyof', 'xs': [{'t': 'consts', 'vs': ['a', 'b', 1, None]}, {'t': 'regex', 'src': '(x)(.*)', 'desc': '`x${string}`'},
                                                     {'t': 'disc', 'key': 'k', 'mapping': {'p': O({'v': N}), 'q': O({})}}]}, {}),
    ('allof-refs', {'t': 'allof', 'xs': [{'t': 'ref', 'name': 'A'}, {'t': 'ref', 'name': 'B'}]}, {'A': O({'a': S}), 'B': O({'b': N})}),
    ('allof-inline-shared', {'t': 'allof', 'xs': [O({'a': S, 'n': O({'x': N})}), O({'b': OPT(N), 'n': O({'y': S})})]}, {}),
    ('union-overlap', {'t': 'anyof', 'xs': [O({'a': S}), O({'a': S, 'b': N}), O({'b': OPT(N), 'c': O({'d': B})})]}, {}),
    ('record', O({}, [{'key': S, 'value': N}]), {}),
    ('record-any', O({'id': S}, [{'key': S, 'value': {'t': 'any'}}]), {}),
    ('obj-index', O({'a': S}, [{'key': S, 'value': {'t': 'anyof', 'xs': [S, N]}}]), {}),
    ('array-obj', {'t': 'array', 'x': O({'id': S, 'tags': {'t': 'array', 'x': S}})}, {}),
    ('recursive-list', {'t': 'ref', 'name': 'L'}, {'L': O({'v': N, 'next': {'t': 'anyof', 'xs': [{'t': 'ref', 'name': 'L'}, NULL]}})}),
    ('map-set', O({'m': {'t': 'map', 'k': S, 'v': N}, 's': OPT({'t': 'set', 'x': {'t': 'anyof', 'xs': [S, NULL]}})}), {}),
    ('union-builtins', {'t': 'anyof', 'xs': [{'t': 'set', 'x': N}, {'t': 'map', 'k': S, 'v': N}, {'t': 'date'}, S]}, {}),
    ('allof-map', {'t': 'allof', 'xs': [{'t': 'map', 'k': S, 'v': {'t': 'any'}}, {'t': 'map', 'k': {'t': 'any'}, 'v': N}]}, {}),
    ('date-bigint-ta', {'t': 'tuple', 'prefix': [{'t': 'date'}, {'t': 'bigint'}, {'t': 'typedarray', 'name': 'Uint8Array'}], 'rest': None}, {}),
    ('disc-hostile', {'t': 'disc', 'key': 'kind', 'mapping': {'constructor': O({'a': N}), 'toString': O({'b': S}), 'x': O({})}}, {}),
    ('nested-union', O({'u': {'t': 'anyof', 'xs': [O({'k': {'t': 'anyof', 'xs': [C('a'), N]}}), {'t': 'array', 'x': {'t': 'anyof', 'xs': [S, O({'z': B})]}}]}}), {}),
    ('any-never', O({'x': {'t': 'any'}, 'y': OPT({'t': 'never'})}), {}),
    # constructs that the second batch of seeded changes needs in order to manifest
    ('union-wide-tuples', {'t': 'anyof', 'xs': [{'t': 'tuple', 'prefix': [S] * 6, 'rest': None}, {'t': 'tuple', 'prefix': [N] * 6, 'rest': None}]}, {}),
    ('obj-odd-keys', O({'user.name': S, 'a b': OPT(N), '2fa': OPT(B)}), {}),
    ('tuple-undef-middle', {'t': 'tuple', 'prefix': [S, {'t': 'anyof', 'xs': [N, {'t': 'nullish', 'd': 'undefined'}]}, S], 'rest': None}, {}),
    ('consts-falsy', {'t': 'consts', 'vs': ['a', 0, 1]}, {}),
    ('consts-false', {'t': 'consts', 'vs': ['a', False]}, {}),
    ('consts-num-str', {'t': 'anyof', 'xs': [{'t': 'consts', 'vs': ['200', '404', 'true']}, NULL]}, {}),
    ('record-template-key', O({}, [{'key': {'t': 'regex', 'src': '^(x-)([\\s\\S]*)$', 'desc': '`x-${string}`'}, 'value': N}]), {}),
    ('union-overlap-typedarray', {'t': 'anyof', 'xs': [O({'t': {'t': 'typedarray', 'name': 'Uint8Array'}}), O({'t': {'t': 'typedarray', 'name': 'Uint8Array'}, 'b': OPT(N)})]}, {}),
    ('tuple-rest-objects', {'t': 'tuple', 'prefix': [S], 'rest': O({'x': N})}, {}),
    # third batch: `unknown & {...}` (the first member hands the caller's own object back), containers of objects inside a union
    ('allof-any-first', {'t': 'allof', 'xs': [{'t': 'any'}, O({'meta': O({'a': S})})]}, {}),
    ('union-map-of-objects', {'t': 'anyof', 'xs': [{'t': 'map', 'k': S, 'v': O({'name': S})}, NULL]}, {}),
    ('union-set-of-objects', {'t': 'anyof', 'xs': [{'t': 'set', 'x': O({'label': S})}, {'t': 'array', 'x': O({'label': S})}]}, {}),
    ('array-num', {'t': 'array', 'x': N}, {}),
    ('disc-missing-tag', O({'ev': {'t': 'disc', 'key': 'type', 'mapping': {'a': O({'v': N}), 'b': O({'w': OPT(S)})}}}), {}),
]

TS_PROGRAMS = [
    ('ts-user', 'type User = {name: string, age?: number, tags: string[]};', 'User'),
    ('ts-disc', "type Sh = {kind: 'c', r: number} | {kind: 's', x: number, y?: string} | {kind: 'toString'};", 'Sh'),
    ('ts-inter', 'type A = {a: string}; type B = {b?: number}; type AB = A & B;', 'AB'),
    ('ts-inter-inline', 'type AB = {id: string, title: string} & {id: string, body?: number};', 'AB'),
    ('ts-record', 'type R = Record<string, number | null>;', 'R'),
    ('ts-record-mixed', 'type R = {id: string, [k: string]: string | number};', 'R'),
    ('ts-record-unknown', 'type R = {id: string, meta: Record<string, unknown>, [k: string]: any};', 'R'),
    ('ts-tuple', 'type T = [string, number, ...boolean[]];', 'T'),
    ('ts-tuple-closed', "type T = [string, 1 | 2];", 'T'),
    ('ts-enumish', "type E = 'a' | 'b' | 1 | null | true;", 'E'),
    ('ts-tpl', 'type P = `id_${string}`;', 'P'),
    ('ts-rec', 'type Tree = {v: number, kids: Tree[]};', 'Tree'),
    ('ts-partial', 'type U = {a: string, b: number}; type P = Partial<U>;', 'P'),
    ('ts-pick-omit', "type U = {a: string, b: number, c: boolean}; type P = Pick<U, 'a' | 'b'> & Omit<U, 'a' | 'b'>;", 'P'),
    ('ts-nested-union', "type N = {u: {k: 'a' | number} | Array<string | {z: boolean}>};", 'N'),
    ('ts-nonjson1', 'type X = {d: Date, b?: bigint};', 'X'),
    ('ts-nonjson2', 'type X = {m: Map<string, number>, s?: Set<string>};', 'X'),
    ('ts-nonjson3', 'type X = [Uint8Array, Float64Array | null];', 'X'),
    ('ts-disc-index', "type Sh = {kind: 'labels', [k: string]: string} | {kind: 'c', r: number};", 'Sh'),
    ('ts-tuple-rest-obj', 'type T = [string, ...{x: number}[]];', 'T'),
    ('ts-overlap', 'type O = {a: string} | {a: string, b: number} | {b?: number, c: {d: boolean}};', 'O'),
    # a result of Exclude with two members where one declares a superset of the other's keys (both must survive: strict mode tells them apart)
    ('ts-exclude-width', "type Created = {type: 'created', id: string, actor: string}; type CreatedLegacy = {type: 'created', id: string}; "
                         "type Deleted = {type: 'deleted', id: string}; type Ping = {type: 'ping'}; type Ev = Created | CreatedLegacy | Deleted | Ping; "
                         "type Stored = Exclude<Ev, Ping>;", 'Stored'),
]
# what the type declares, read off the source by hand (NOT from the compiler's IR): used as the reference for "declared keys" where given
HAND_SPECS = {
    'ts-exclude-width': {'t': 'anyof', 'xs': [O({'type': C('created'), 'id': S, 'actor': S}), O({'type': C('created'), 'id': S}), O({'type': C('deleted'), 'id': S})]},
}


def random_spec(rng, depth=0):
    leaves = [S, N, B, NULL, C(1), C('a'), C(True), {'t': 'consts', 'vs': ['a', 'b', 2]}, {'t': 'date'}, {'t': 'bigint'}, {'t': 'any'}]
    if depth >= 2 or rng.random() < 0.3:
        return rng.choice(leaves)
    k = rng.randrange(8)
    if k == 0:
        props = {}
        for key in rng.sample(['a', 'b', 'c'], rng.randrange(1, 3)):
            x = random_spec(rng, depth + 1)
            props[key] = OPT(x) if rng.random() < 0.4 else x
        idx = [{'key': S, 'value': random_spec(rng, depth + 1)}] if rng.random() < 0.2 else []
        return O(props, idx)
    if k == 1:
        return {'t': 'array', 'x': random_spec(rng, depth + 1)}
    if k == 2:
        return {'t': 'tuple', 'prefix': [random_spec(rng, depth + 1) for _ in range(rng.randrange(0, 3))], 'rest': random_spec(rng, depth + 1) if rng.random() < 0.5 else None}
    if k == 3:
        return {'t': 'anyof', 'xs': [random_spec(rng, depth + 1) for _ in range(rng.randrange(2, 4))]}
    if k == 4:
        return {'t': 'allof', 'xs': [O({'a': random_spec(rng, 2)}), O({'b': OPT(random_spec(rng, 2))})]}
    if k == 5:
        return {'t': 'disc', 'key': 'k', 'mapping': {'p': O({'v': random_spec(rng, 2)}), 'q': O({'w': OPT(random_spec(rng, 2))})}}
    if k == 6:
        return {'t': 'map', 'k': rng.choice([S, N]), 'v': random_spec(rng, depth + 1)} if rng.random() < 0.5 else {'t': 'set', 'x': random_spec(rng, depth + 1)}
    return O({'a': random_spec(rng, depth + 1)})


def spec_keys(s, defs, acc=None, seen=None):
    acc = set() if acc is None else acc
    seen = set() if seen is None else seen
    t = s['t']
    if t == 'object':
        for k, v in s['props'].items():
            acc.add(k)
            spec_keys(v, defs, acc, seen)
        for p in s.get('index') or []:
            spec_keys(p['value'], defs, acc, seen)
    elif t in ('optional', 'array', 'set'):
        spec_keys(s['x'], defs, acc, seen)
    elif t == 'tuple':
        for x in s['prefix']:
            spec_keys(x, defs, acc, seen)
        if s['rest']:
            spec_keys(s['rest'], defs, acc, seen)
    elif t in ('anyof', 'allof'):
        for x in s['xs']:
            spec_keys(x, defs, acc, seen)
    elif t == 'disc':
        acc.add(s['key'])
        for m in s['mapping'].values():
            spec_keys(m, defs, acc, seen)
    elif t == 'map':
        spec_keys(s['k'], defs, acc, seen)
        spec_keys(s['v'], defs, acc, seen)
    elif t == 'ref' and s['name'] not in seen:
        seen.add(s['name'])
        spec_keys(defs[s['name']], defs, acc, seen)
    return acc


def spec_features(s, defs, acc=None, seen=None):
    acc = set() if acc is None else acc
    seen = set() if seen is None else seen
    t = s['t']
    acc.add(t if t != 'tuple' else ('tuple-rest' if s['rest'] else 'tuple-closed'))
    if t == 'object':
        if s.get('index'):
            acc.add('index-sig')
        for v in s['props'].values():
            spec_features(v, defs, acc, seen)
        for p in s.get('index') or []:
            spec_features(p['value'], defs, acc, seen)
    elif t in ('optional', 'array', 'set'):
        spec_features(s['x'], defs, acc, seen)
    elif t == 'tuple':
        for x in s['prefix']:
            spec_features(x, defs, acc, seen)
        if s['rest']:
            spec_features(s['rest'], defs, acc, seen)
    elif t in ('anyof', 'allof'):
        for x in s['xs']:
            spec_features(x, defs, acc, seen)
    elif t == 'disc':
        for m in s['mapping'].values():
            spec_features(m, defs, acc, seen)
    elif t == 'map':
        spec_features(s['k'], defs, acc, seen)
        spec_features(s['v'], defs, acc, seen)
    elif t == 'ref' and s['name'] not in seen:
        seen.add(s['name'])
        spec_features(defs[s['name']], defs, acc, seen)
    return acc


# --------------------------------------------------------------------------------------- IR -> spec (compiled programs)
class Unsupported(Exception):
    pass


def ir_to_spec(j):
    k = j['k']
    if k in ('null', 'undefined', 'void'):
        return {'t': 'nullish', 'd': 'null' if k == 'null' else k}
    if k in ('boolean', 'string', 'number'):
        return {'t': 'typeof', 'name': k}
    if k == 'any':
        return {'t': 'any'}
    if k == 'never':
        return {'t': 'never'}
    if k == 'anyarray':
        return {'t': 'array', 'x': {'t': 'any'}}
    if k == 'const':
        return {'t': 'const', 'v': j['v']}
    if k == 'tpl':
        items = j['items']
        if len(items) == 1 and items[0]['k'] == 'const':
            return {'t': 'const', 'v': items[0]['v']}
        return {'t': 'regex', 'src': j['regex'], 'desc': 'tpl', 'items': items}
    if k == 'object':
        props = {}
        for key, v in j['props'].items():
            x = ir_to_spec(v['t'])
            props[key] = OPT(x) if v['optional'] else x
        idx = []
        if j['index'] is not None:
            val = ir_to_spec(j['index']['value']['t'])
            idx = [{'key': ir_to_spec(j['index']['key']), 'value': OPT(val) if j['index']['value']['optional'] else val}]
        return O(props, idx)
    if k == 'array':
        return {'t': 'array', 'x': ir_to_spec(j['t'])}
    if k == 'tuple':
        return {'t': 'tuple', 'prefix': [ir_to_spec(x) for x in j['prefix']], 'rest': ir_to_spec(j['rest']) if j['rest'] is not None else None}
    if k == 'ref':
        return {'t': 'ref', 'name': j['name']}
    if k == 'anyof':
        return {'t': 'anyof', 'xs': [ir_to_spec(x) for x in j['items']]}
    if k == 'allof':
        return {'t': 'allof', 'xs': [ir_to_spec(x) for x in j['items']]}
    if k == 'date':
        return {'t': 'date'}
    if k == 'bigint':
        return {'t': 'bigint'}
    if k == 'typedarray':
        return {'t': 'typedarray', 'name': j['kind']}
    if k == 'map':
        return {'t': 'map', 'k': ir_to_spec(j['key']), 'v': ir_to_spec(j['value'])}
    if k == 'set':
        return {'t': 'set', 'x': ir_to_spec(j['t'])}
    raise Unsupported(k)


GLUE_IMPORTS = ['TypeofRuntype', 'AnyRuntype', 'NullishRuntype', 'NeverRuntype', 'ConstRuntype', 'RegexRuntype', 'DateRuntype', 'BigIntRuntype',
                'StringWithFormatRuntype', 'NumberWithFormatRuntype', 'AnyOfConstsRuntype', 'TupleRuntype', 'AllOfRuntype', 'AnyOfRuntype', 'ArrayRuntype',
                'AnyOfDiscriminatedRuntype', 'ObjectRuntype', 'OptionalFieldRuntype', 'BaseRefRuntype', 'buildParserFromRuntype', 'TypedArrayRuntype',
                'MapRuntype', 'SetRuntype']


def module_text(code, rtdir):
    return ('import { ' + ', '.join(GLUE_IMPORTS) + ' } from ' + json.dumps(os.path.join(rtdir, 'codegen-v2.mjs')) + ';\n'
            'class RefRuntype extends BaseRefRuntype { getNamedRuntypes() { return namedRuntypes; } }\n' + code +
            '\nexport const parsers = {};\nfor (const k of Object.keys(buildParsersInput)) parsers[k] = buildParserFromRuntype(buildParsersInput[k], k, false);\n'
            'export { namedRuntypes };\n')


def compile_program(name, src, parser):
    """real compiler -> (module files for the instrumented and the stripped runtime, spec, defs)"""
    full = src + f'\nparse.buildParsers<{{{parser}: {parser}}}>();\n'
    r = beffdrv('compile', {'files': {'entry.ts': full}}, timeout=120)
    if r.get('panic') or r.get('errors') or r.get('parse_error') or 'code' not in r:
        raise Inconclusive(f'fixture {name} does not compile: ' + json.dumps({k: r.get(k) for k in ('panic', 'errors', 'parse_error', 'emit_error', 'emit_panic')})[:300])
    defs = {}
    for v in r['validators']:
        defs[v['name']] = ir_to_spec(v['schema'])
    dec = [d for d in r['decoders'] if d['name'] == parser][0]
    spec = ir_to_spec(dec['schema'])
    os.makedirs(JOBS, exist_ok=True)
    paths = {}
    for tag, d in (('inst', RTI), ('plain', RT)):
        p = os.path.join(JOBS, f'{name}.{tag}.mjs')
        with open(p, 'w') as fh:
            fh.write(module_text(r['code'], d))
        paths[tag] = p
    return paths, spec, defs


# ------------------------------------------------------------------------------------------- running jobs
KINDS_QUICK = ['undefined', 'null', 'true', 'number', 'string', 'bigint', 'array0', 'array1', 'array2', 'object', 'date', 'invaliddate', 'map1', 'set1', 'function']
KINDS_THOROUGH = KINDS_QUICK + ['false', 'array3', 'u8array', 'f64array', 'map0', 'set0', 'symbol']
LEAF_QUICK = ['undefined', 'null', 'number', 'string']
LEAF_THOROUGH = ['undefined', 'null', 'true', 'number', 'string', 'bigint', 'array0', 'date', 'function']


def max_tuple(s, defs, seen=None):
    seen = set() if seen is None else seen
    t = s['t']
    if t == 'tuple':
        return max([len(s['prefix'])] + [max_tuple(x, defs, seen) for x in s['prefix']] + ([max_tuple(s['rest'], defs, seen)] if s['rest'] else []))
    if t == 'object':
        return max([max_tuple(v, defs, seen) for v in s['props'].values()] + [max_tuple(p['value'], defs, seen) for p in s.get('index') or []] + [0])
    if t in ('optional', 'array', 'set'):
        return max_tuple(s['x'], defs, seen)
    if t in ('anyof', 'allof'):
        return max([max_tuple(x, defs, seen) for x in s['xs']] + [0])
    if t == 'disc':
        return max([max_tuple(m, defs, seen) for m in s['mapping'].values()] + [0])
    if t == 'map':
        return max(max_tuple(s['k'], defs, seen), max_tuple(s['v'], defs, seen))
    if t == 'ref' and s['name'] not in seen:
        seen.add(s['name'])
        return max_tuple(defs[s['name']], defs, seen)
    return 0


def leaf_kinds_needed(s, defs, acc=None, seen=None):
    """input kinds without which some leaf validator of the spec could never accept"""
    acc = set() if acc is None else acc
    seen = set() if seen is None else seen
    t = s['t']
    if t == 'typeof' and s['name'] == 'boolean':
        acc.add('true')
    elif t == 'const' and isinstance(s['v'], bool):
        acc.add('true' if s['v'] else 'false')
    elif t == 'consts':
        for v in s['vs']:
            if isinstance(v, bool):
                acc.add('true' if v else 'false')
    elif t == 'bigint':
        acc.add('bigint')
    elif t == 'date':
        acc.add('date')
    elif t == 'typedarray':
        acc.add('u8array')
        acc.add('buffer')          # a subclass instance (Node's Buffer extends Uint8Array)
    elif t == 'object':
        for v in s['props'].values():
            leaf_kinds_needed(v, defs, acc, seen)
        for p in s.get('index') or []:
            leaf_kinds_needed(p['value'], defs, acc, seen)
    elif t in ('optional', 'array', 'set'):
        leaf_kinds_needed(s['x'], defs, acc, seen)
    elif t == 'tuple':
        for x in s['prefix']:
            leaf_kinds_needed(x, defs, acc, seen)
        if s['rest']:
            leaf_kinds_needed(s['rest'], defs, acc, seen)
    elif t in ('anyof', 'allof'):
        for x in s['xs']:
            leaf_kinds_needed(x, defs, acc, seen)
    elif t == 'disc':
        for m in s['mapping'].values():
            leaf_kinds_needed(m, defs, acc, seen)
    elif t == 'map':
        leaf_kinds_needed(s['k'], defs, acc, seen)
        leaf_kinds_needed(s['v'], defs, acc, seen)
    elif t == 'ref' and s['name'] not in seen:
        seen.add(s['name'])
        leaf_kinds_needed(defs[s['name']], defs, acc, seen)
    return acc


def mid_kinds_for(spec, defs, tier):
    """kinds tried at positions below the root (the root gets the full list): the JSON kinds plus bigint as non-JSON representative"""
    feats = spec_features(spec, defs)
    L = min(3, max(1, max_tuple(spec, defs) + (2 if 'tuple-rest' in feats else 1)))     # a tuple with rest: two rest elements
    if tier == 'quick':
        kinds = ['undefined', 'null', 'number', 'string'] + [f'array{i}' for i in range(1, L + 1)] + ['object']
    else:
        kinds = ['undefined', 'null', 'number', 'string', 'bigint'] + [f'array{i}' for i in range(0, L + 1)] + ['object']
    if tier != 'quick':
        kinds += ['true', 'date']
    if 'map' in feats:
        kinds += ['map1']
    if 'set' in feats:
        kinds += ['set1']
    if 'date' in feats and 'date' not in kinds:
        kinds += ['date']
    if 'typedarray' in feats:
        kinds += ['u8array', 'buffer']
    if 'array' in feats and tier != 'quick':
        kinds += ['sparse2']
    for k in sorted(leaf_kinds_needed(spec, defs)):
        if k not in kinds:
            kinds.append(k)
    if tier != 'quick' and 'true' not in kinds:
        kinds += ['true']
    return kinds


def kinds_for(spec, defs, tier):
    feats = spec_features(spec, defs)
    L = min(3, max(1, max_tuple(spec, defs) + (2 if 'tuple-rest' in feats else 1)))     # a tuple with rest: two rest elements
    if tier != 'quick':
        L = max(L, 2)
    kinds = ['undefined', 'null', 'true', 'number', 'string', 'bigint', 'date', 'invaliddate', 'symbol'] + [f'array{i}' for i in range(L + 1)] + ['object']
    if 'array' in feats or 'tuple-rest' in feats or 'tuple-closed' in feats:
        kinds += ['sparse2']
    if 'map' in feats or tier != 'quick':
        kinds += ['map1']
    if 'set' in feats or tier != 'quick':
        kinds += ['set1']
    if 'typedarray' in feats or 'any' in feats or tier != 'quick':
        kinds += ['u8array']
    if 'typedarray' in feats:
        kinds += ['buffer']
    if tier != 'quick':
        kinds += ['false', 'function', 'map0', 'set0', 'f64array']
    return kinds


def make_job(name, spec, defs, prop, tier, module=None, parser=None, hostile=False):
    keys = sorted(spec_keys(spec, defs))
    extra = ['zz'] + (['__proto__', 'constructor', 'toString', 'hasOwnProperty'] if hostile else [])
    extra = [k for k in extra if k not in keys]
    job = {'name': name, 'tier': tier, 'spec': spec, 'defs': defs, 'props': [prop],
           'options': [{}, {'disallowExtraProperties': True}, {'objectKeyOrder': 'sorted'}] if prop == 'C03' else ([{}, {'disallowExtraProperties': True}] if prop == 'C12' else [{}]),
           'kinds': kinds_for(spec, defs, tier), 'midKinds': mid_kinds_for(spec, defs, tier),
           'leafKinds': (LEAF_QUICK + [k for k in sorted(leaf_kinds_needed(spec, defs)) if k not in LEAF_QUICK]) if tier == 'quick' else LEAF_THOROUGH, 'maxDepth': 2 if tier == 'quick' else 3,
           'keyPool': keys + extra, 'extraKeys': extra, 'maxPaths': 250000 if tier == 'quick' else 3000000}
    if module:
        job['module'] = module
        job['parser'] = parser
    if tier != 'quick':
        # fallback when the thorough bounds cannot be explored within the budget: the quick-tier bounds for this validator
        q = make_job(name, spec, defs, prop, 'quick', module, parser, hostile)
        job['fallback'] = {k: q[k] for k in ('kinds', 'midKinds', 'leafKinds', 'maxDepth', 'keyPool', 'extraKeys', 'maxPaths')}
    return job


def run_harness(job, rtdir, timeout=900):
    os.makedirs(JOBS, exist_ok=True)
    fd, path = tempfile.mkstemp(suffix='.json', dir=JOBS)
    with os.fdopen(fd, 'w') as fh:
        json.dump(job, fh)
    try:
        r = subprocess.run(['node', '--stack-size=4000', os.path.join(VERIF, 'jsdse', 'val_harness.mjs'), rtdir, path], stdout=subprocess.PIPE,
                           stderr=subprocess.PIPE, text=True, timeout=timeout, env=ENV)
    except subprocess.TimeoutExpired:
        return {'harness_error': 'timeout'}
    finally:
        os.unlink(path)
    if r.returncode != 0:
        return {'harness_error': r.stderr[-1500:]}
    try:
        return json.loads(r.stdout)
    except Exception:
        return {'harness_error': 'bad output: ' + r.stdout[-500:]}


def _task(args):
    """explore one validator.  A random validator tree can blow the exploration up (a union of containers of unions ...): a job that hits its
    time or path budget is explored again with reduced value bounds (depth 1 below the root, leaf kinds only below it) and, if that fails as
    well and the validator is one of the random trees, it is dropped from this run - both are recorded in the evidence, neither is a pass of
    the full bounds.  Fixed and compiled validators are never dropped: they make the run inconclusive."""
    job, = args
    t0 = time.time()
    rtdir = RTI
    budget = 300 if job.get('tier', 'quick') == 'quick' else 900
    res = run_harness(job, rtdir, timeout=budget)
    reduced = None

    def blown(r):
        return r.get('harness_error') == 'timeout' or r.get('bound_hit')
    if blown(res) and job.get('fallback'):
        reduced = ('timeout' if 'harness_error' in res else 'path bound') + ' -> quick-tier bounds'
        j2 = dict(job)
        j2.update(job['fallback'])
        res = run_harness(j2, rtdir, timeout=budget)
    if blown(res):
        reduced = ('timeout' if 'harness_error' in res else 'path bound') + ' -> depth 1, leaf kinds only'
        j2 = dict(job)
        j2.update(job.get('fallback') or {})
        j2['maxDepth'] = 1
        j2['midKinds'] = list(j2['leafKinds'])
        res = run_harness(j2, rtdir, timeout=budget)
        if blown(res) and job['name'].startswith('rand'):
            res = {'skipped': reduced}
    res['job'] = job['name']
    if reduced:
        res['reduced'] = reduced
    res['wall'] = round(time.time() - t0, 2)
    return res


def msg_class(what):
    """class of a violation message: its fixed leading part (values, paths and option sets removed)"""
    import re
    w = re.sub(r'\(\{[^()]*\}\)\s*$', '', what).strip()
    w = re.split(r':|\{|\[|⟨|"', w)[0]
    w = re.sub(r'\d+', 'N', w).strip()
    return w[:70]


def run(pid, tier, extra_jobs=None):
    rep = Report(pid, tier)
    c13.build_runtime()
    rng = random.Random(seed())
    jobs = []
    for name, spec, defs in FIXED_SPECS:
        jobs.append(make_job(name, spec, defs, pid, tier, hostile=(name in ('disc-hostile', 'record', 'obj-index') or tier != 'quick')))
    nrand = 16 if tier == 'quick' else 250
    for i in range(nrand):
        jobs.append(make_job(f'rand{i}', random_spec(rng), {}, pid, tier, hostile=(tier != 'quick' and i % 3 == 0)))
    plain_modules = {}
    for name, src, parser in TS_PROGRAMS:
        try:
            paths, spec, defs = compile_program(name, src, parser)
        except Unsupported as e:
            continue
        if name in HAND_SPECS:
            spec, defs = HAND_SPECS[name], {}
        j = make_job(name, spec, defs, pid, tier, module=paths['inst'], parser=parser, hostile=(tier != 'quick'))
        plain_modules[name] = paths['plain']
        jobs.append(j)
    for j in (extra_jobs or []):
        jobs.append(j)
    byname = {j['name']: j for j in jobs}
    agg = {'jobs': len(jobs), 'paths': 0, 'refinements': 0, 'infeasible': 0, 'queries': 0, 'solver_s': 0.0, 'unmodelled_jobs': 0, 'bound_hit': 0, 'samples': []}
    t0 = time.time()
    with mp.Pool(min(16, os.cpu_count() or 4)) as pool:
        results = list(pool.imap_unordered(_task, [(j,) for j in jobs]))
    for res in results:
        job = byname[res['job']]
        if res.get('reduced'):
            agg.setdefault('reduced_bounds', []).append(f'{job["name"]}: {res["reduced"]}')
        if 'skipped' in res:
            agg.setdefault('dropped_random_validators', []).append(f'{job["name"]} ({res["skipped"]} even with reduced bounds): {json.dumps(job["spec"])[:200]}')
            continue
        if 'harness_error' in res:
            rep.note_inconclusive(f'{job["name"]}: harness failed: {res["harness_error"][:300]}')
            continue
        agg['paths'] += res['paths']
        agg['refinements'] += res['refinements']
        agg['infeasible'] += res['infeasible']
        agg['queries'] += res['stats']['queries']
        agg['solver_s'] += res['stats']['solver_ms'] / 1000.0
        if res.get('bound_hit'):
            agg['bound_hit'] += 1
            rep.note_inconclusive(f'{job["name"]}: path bound hit after {res["paths"]} paths')
        if res['unmodelled']:
            agg['unmodelled_jobs'] += 1
            rep.note_inconclusive(f'{job["name"]}: unmodelled on {len(res["unmodelled"])} paths: {sorted(set(res["unmodelled"]))[:3]}')
        for e in res['errors'][:3]:
            rep.note_inconclusive(f'{job["name"]}: harness exception: {e["message"][:300]}')
        if len(agg['samples']) < 4:
            agg['samples'].append({'validator': job['name'], 'spec': json.dumps(job['spec'])[:300], 'paths': res['paths'], 'solver_queries': res['stats']['queries']})
        feats = sorted(spec_features(job['spec'], job['defs']))
        seen = set()
        for v in res['violations']:
            if v['prop'] != pid:
                continue
            cls = msg_class(v['what'])
            if cls in seen:
                continue
            seen.add(cls)
            # replay on the un-instrumented runtime with the concrete witness
            rj = dict(job)
            rj['concrete'] = v.get('concrete')
            if job.get('module'):
                rj['module'] = plain_modules[job['name']]
            rr = run_harness(rj, RT, timeout=120) if v.get('concrete') is not None else {'harness_error': 'no concrete witness'}
            reproduced = [x for x in rr.get('violations', []) if x['prop'] == pid and msg_class(x['what']) == cls] if 'violations' in rr else []
            if not reproduced:
                rep.note_inconclusive(f'{job["name"]}: violation "{cls}" did not reproduce on the stripped runtime ({str(rr.get("harness_error", ""))[:120]}); witness {json.dumps(v.get("concrete"))[:200]}')
                continue
            rl = role(pid, cls, feats)
            mm = re.match(r'^received "([^"]*)" is not the value at \[(?:.*, )?"([^"]*)"\]', v['what'])
            if mm and mm.group(1) == mm.group(2) and 'index-sig' in feats:
                rl = 'index-key-reported-as-received'     # the key of an index signature did not match: the error carries the key, at the path of the value
            key = f'{pid.lower()}:{cls}:{rl}' + (f'@{job["name"]}' if job.get('module') else '')
            rep.violation(key, f'{job["name"]} ({"compiled" if job.get("module") else "ad-hoc"} validator {json.dumps(job["spec"])[:160]}): {v["what"]} for input {v["input"][:160]} '
                               f'(witness {json.dumps(v.get("concrete"))[:200]})', {'cmd': 'val', 'job': rj})
    agg['solver_s'] = round(agg['solver_s'], 2)
    agg['wall'] = round(time.time() - t0, 1)
    return rep, agg


def role(pid, cls, feats):
    """role of a violation: the validator constructs that plausibly matter for this message class"""
    table = {
        'rejected value but N errors reported': ['tuple-closed'],
        'strict mode rejects but default mode accepts': ['allof', 'index-sig', 'disc', 'anyof'],
        'strict mode accepts but default mode accepts': ['index-sig', 'anyof', 'allof', 'object'],
    }
    for k, cands in table.items():
        if cls.startswith(k[:40]):
            hit = [c for c in cands if c in feats]
            if hit:
                return hit[0]
    return '+'.join(f for f in feats if f in ('allof', 'anyof', 'disc', 'index-sig', 'tuple-closed', 'tuple-rest', 'map', 'set', 'regex', 'consts', 'bigint', 'date', 'typedarray', 'ref'))[:80]


def finish(rep, agg, pid, tier, explanation, outside):
    coverage = {
        'explanation': explanation,
        'evaluations': agg['paths'],
        'distinct_nontrivial': agg['paths'],
        'rule': 'one evaluation = one complete path of the instrumented real runtime on a symbolic input (kinds/shapes refined on demand, string and number '
                'payloads symbolic with z3 deciding branch feasibility); every path is a distinct decision sequence and ends in the property obligations',
        'samples': agg['samples'] or [{'validator': 'none'}],
        'validators': agg['jobs'], 'refinements': agg['refinements'], 'infeasible_paths': agg['infeasible'], 'queries': agg['queries'], 'solver_s': agg['solver_s'],
        'bounds': 'input depth <= %d below the root (deeper positions: primitives / empty containers), arrays <= %d elements, object keys = keys declared by the '
                  'validator + one fresh key%s; validators: %d ad-hoc trees (all runtime classes) and %d programs compiled by the real compiler'
                  % (2 if tier == 'quick' else 3, 2 if tier == 'quick' else 3, '' if tier == 'quick' else ' + __proto__/constructor/toString', len(FIXED_SPECS) + (16 if tier == 'quick' else 250), len(TS_PROGRAMS)),
        'outside_claim': outside,
        'reduced_bounds': agg.get('reduced_bounds', []),
        'dropped_random_validators': agg.get('dropped_random_validators', []),
    }
    assumptions = ['tsx strip/instrument passes preserve semantics (every reported violation is replayed on the merely stripped module)',
                   '$S models of builtins reached with symbolic arguments (includes/indexOf/Set.has/regex.test/JSON.stringify/hasOwnProperty/Number.is*); an unmodelled '
                   'builtin aborts the path as inconclusive', 'z3 4.8.12 (strings, reals)']
    return rep.finish('other', coverage, assumptions)
