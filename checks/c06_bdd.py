"""C06 layer 1: the five BDD bodies (from_node, union, intersect, diff, complement) executed from MIR in
modular mode: children are opaque handles carrying a symbolic 16-bit truth table (4 atoms), lazily
initialised one level; recursive calls are replaced by their contracts (assume/guarantee)."""
import z3, time
from mirsym.interp import (Engine, Explorer, Lazy, Adt, RcV, Cell, Ptr, Tup, choose, Abort, Unmodelled, BoundHit, Panic)

MASK = [0xAAAA, 0xCCCC, 0xF0F0, 0xFF00]
ATOM_KINDS = ['Mapping', 'List', 'Map', 'Set']


def atom_mask(atom):
    idx = atom.fields[0]
    if isinstance(idx, int):
        return z3.BitVecVal(MASK[idx], 16)
    e = z3.BitVecVal(MASK[3], 16)
    for i in (2, 1, 0):
        e = z3.If(idx == i, z3.BitVecVal(MASK[i], 16), e)
    return e


def tt_of(v):
    if isinstance(v, RcV):
        v = v.cell.v
    if isinstance(v, Cell):
        v = v.v
    if isinstance(v, OpaqueBdd):
        return v.tt
    assert isinstance(v, Adt) and v.ty == 'Bdd', v
    if v.variant == 'True':
        return z3.BitVecVal(0xFFFF, 16)
    if v.variant == 'False':
        return z3.BitVecVal(0, 16)
    atom, l, m, r = v.fields
    A = atom_mask(atom)
    return (A & tt_of(l)) | tt_of(m) | (~A & tt_of(r))


class OpaqueBdd(Lazy):
    n = 0

    def __init__(s, st, tt=None, kind='List'):
        OpaqueBdd.n += 1
        s.id = OpaqueBdd.n
        s.tt = tt if tt is not None else z3.BitVec(f"tt{s.id}", 16)
        s.kind = kind

    def force(s, st, cell):
        k = choose(st, 3, [s.tt == 0xFFFF, s.tt == 0, None])
        if k == 0:
            nv = Adt('Bdd', 'True', [])
        elif k == 1:
            nv = Adt('Bdd', 'False', [])
        else:
            a = z3.BitVec(f"atom_o{s.id}", 64)
            st.pc.append(z3.ULT(a, 4))
            kids = [RcV(Cell(OpaqueBdd(st, kind=s.kind))) for _ in range(3)]
            nv = Adt('Bdd', 'Node', [Adt('Atom', s.kind, [a])] + kids)
            st.pc.append(s.tt == tt_of(nv))
        cell.v = nv
        return nv

    def eq_hook(s, e, st, ra, rb):
        va, vb = ra.cell.v, rb.cell.v
        if isinstance(va, OpaqueBdd) and isinstance(vb, OpaqueBdd):
            # structural equality of two unknown diagrams: uninterpreted, but equal diagrams have equal tables
            k = choose(st, 2, [va.tt == vb.tt, None])
            if k == 0:
                rb.cell = ra.cell
                return True
            return False
        # one side is known: run the real derived PartialEq (forces the other side level by level)
        fn = e.ix.get(e.ix.traitimpl[('PartialEq', 'Bdd', 'eq')])
        return e.call_fn(st, fn, [Ptr(ra.cell), Ptr(rb.cell)])


def spec_contract(op):
    def c(st, argv):
        from mirsym.stdmodel import to_rc
        a = to_rc(ENG, st, argv[0])
        ta = tt_of(a)
        if op == 'complement':
            t = ~ta
        else:
            b = to_rc(ENG, st, argv[1])
            tb = tt_of(b)
            t = {'union': ta | tb, 'intersect': ta & tb, 'diff': ta & ~tb}[op]
        o = OpaqueBdd(st)
        st.pc.append(o.tt == t)
        return RcV(Cell(o))
    return c


def from_node_contract(st, argv):
    node = Adt('Bdd', 'Node', argv)
    o = OpaqueBdd(st)
    st.pc.append(o.tt == tt_of(node))
    return RcV(Cell(o))


ENG = None
OPS = ('from_node', 'union', 'intersect', 'diff', 'complement')


def fn_name(ix, op):
    if op == 'from_node':
        return ix.inherent[('Bdd', 'from_node')]
    return ix.traitimpl[('BddOps', 'Rc<Bdd>', op)]


def run_op(eng, op, wrong_contract=None, reach_twin=False):
    """returns dict(paths, queries, sat=[models], time).  wrong_contract: (callee, spec-op) seeds a wrong contract
    for the mutant twin; reach_twin asserts false at the end of every path (vacuity witness)."""
    global ENG
    ENG = eng
    ix = eng.ix
    eng.contracts.clear()
    for o in ('union', 'intersect', 'diff', 'complement'):
        eng.contracts[fn_name(ix, o)] = spec_contract(o)
    eng.contracts[fn_name(ix, 'from_node')] = from_node_contract
    if wrong_contract:
        eng.contracts[fn_name(ix, wrong_contract[0])] = spec_contract(wrong_contract[1])
    target = ix.get(fn_name(ix, op))
    ex = Explorer()
    t0 = time.time()

    def body(st):
        x = RcV(Cell(OpaqueBdd(st)))
        tx = x.cell.v.tt
        info = {'op': op}
        if op == 'from_node':
            a = z3.BitVec('root_atom', 64)
            st.pc.append(z3.ULT(a, 4))
            l, m, r = [RcV(Cell(OpaqueBdd(st))) for _ in range(3)]
            if choose(st, 2) == 1:
                r = RcV(l.cell)      # aliasing case left == right (same allocation)
            atom = Adt('Atom', 'List', [a])
            expect = tt_of(Adt('Bdd', 'Node', [atom, l, m, r]))
            info['inputs'] = {'atom': a, 'left': tt_of(l), 'middle': tt_of(m), 'right': tt_of(r)}
            # call_fn runs the real body; only calls made *from* it go through the contracts
            res = eng.call_fn(st, target, [atom, l, m, r])
            info['args'] = [atom, l, m, r]
            return expect, tt_of(res), info
        if op == 'complement':
            info['inputs'] = {'x': tx}
            res = eng.call_fn(st, target, [Ptr(Cell(x))])
            info['args'] = [x]
            return ~tx, tt_of(res), info
        y = RcV(Cell(OpaqueBdd(st)))
        ty = y.cell.v.tt
        if choose(st, 2) == 1:
            y = RcV(x.cell)
            ty = tx   # aliasing case: both operands are the same allocation
        info['inputs'] = {'x': tx, 'y': ty}
        res = eng.call_fn(st, target, [Ptr(Cell(x)), Ptr(Cell(y))])
        info['args'] = [x, y]
        expect = {'union': tx | ty, 'intersect': tx & ty, 'diff': tx & ~ty}[op]
        return expect, tt_of(res), info

    results = ex.run(body)
    sat = []
    nq = 0
    st_time = 0.0
    samples = []
    for st, (expect, got, info) in results:
        s = z3.Solver()
        s.add(st.pc)
        s.add(z3.BoolVal(True) if reach_twin else expect != got)
        q0 = time.time()
        r = s.check()
        st_time += time.time() - q0
        nq += 1
        if r == z3.unknown:
            raise Unmodelled('solver unknown on obligation')
        if r == z3.sat:
            sat.append((st, s.model(), info, expect, got))
        if len(samples) < 2:
            samples.append({'op': op, 'decisions': list(st.decisions), 'obligation': f'{z3.simplify(got)} == {z3.simplify(expect)}'[:300]})
    return {'op': op, 'paths': len(results), 'infeasible_prefixes': ex.aborted, 'obligation_queries': nq,
            'feasibility_queries': ex.queries, 'solver_s': round(ex.solver_time + st_time, 3), 'sat': sat,
            'wall_s': round(time.time() - t0, 2), 'samples': samples}


def snapshot(x):
    return None


# ------------------------------------------------------------------------------------------------
# Turning a model into concrete diagrams for the native replay: every opaque child is realised as the
# canonical ordered diagram of its table restricted to atoms greater than its parent's atom where possible.

def canon_bdd(tt, atoms=(0, 1, 2, 3)):
    """a concrete diagram (JSON) with the given 16-bit table, Shannon expansion over atoms in order"""
    tt &= 0xFFFF
    if tt == 0xFFFF:
        return 'T'
    if tt == 0:
        return 'F'
    for i, a in enumerate(atoms):
        m = MASK[a]
        sh = 1 << a
        hi = tt & m            # rows where atom is true
        lo = tt & ~m & 0xFFFF
        hi_full = hi | (hi >> sh)     # table of the positive cofactor, made independent of a
        lo_full = lo | (lo << sh) & 0xFFFF
        if hi_full != lo_full:
            rest = atoms[i + 1:]
            return {'a': a, 'l': canon_bdd(hi_full, rest), 'm': 'F', 'r': canon_bdd(lo_full, rest)}
    return 'T' if tt else 'F'


def value_to_json(model, v, depth=0):
    """concretise an interpreter Bdd value under a model"""
    if isinstance(v, RcV):
        v = v.cell.v
    if isinstance(v, Cell):
        v = v.v
    if isinstance(v, OpaqueBdd):
        t = model.eval(v.tt, model_completion=True).as_long()
        return canon_bdd(t)
    if v.variant == 'True':
        return 'T'
    if v.variant == 'False':
        return 'F'
    atom, l, m, r = v.fields
    a = atom.fields[0]
    if not isinstance(a, int):
        a = model.eval(a, model_completion=True).as_long()
    return {'a': a, 'l': value_to_json(model, l), 'm': value_to_json(model, m), 'r': value_to_json(model, r)}
