"""C06 — union / intersection / difference / complement are exact set operations.
Layers (DESIGN.md section 5): 1 BDD modular, 2 BDD+DNF unrolled, 3 literal sets, 4 SemType merge."""
import os, sys, time, json
import z3
from lib.common import Report, Inconclusive, mir_dump, beffdrv, REPO, seed
from mirsym.mir import Index, Layouts
from mirsym.interp import Engine, Unmodelled, BoundHit, Panic
from checks import c06_bdd

PID = 'C06'


def make_engine():
    path = mir_dump('beff-core')
    ix = Index(open(path).read(), os.path.join(REPO, 'packages/beff-core/src'))
    lay = Layouts()
    lay.load_dir(os.path.join(REPO, 'packages/beff-core/src'))
    return Engine(ix, lay)


def replay_bdd(op, model, info):
    """realise the model as concrete diagrams and run the real function natively (dev and release)"""
    args = info['args']
    alts = []
    if op == 'from_node':
        atom, l, m, r = args
        a = atom.fields[0]
        a = a if isinstance(a, int) else model.eval(a, model_completion=True).as_long()
        base = {'op': op, 'atom': a, 'l': c06_bdd.value_to_json(model, l), 'm': c06_bdd.value_to_json(model, m),
                'r': c06_bdd.value_to_json(model, r), 'alias_lr': l.cell is r.cell}
        alts.append(base)
    elif op == 'complement':
        alts.append({'op': op, 'x': c06_bdd.value_to_json(model, args[0])})
    else:
        x, y = args
        alts.append({'op': op, 'x': c06_bdd.value_to_json(model, x), 'y': c06_bdd.value_to_json(model, y),
                     'alias': x.cell is y.cell})
    # alternative realisations: wrap children in a redundant node so that structurally-unequal assumptions can hold
    extra = []
    for b in alts:
        for key in ('x', 'y', 'l', 'm', 'r'):
            if key in b and isinstance(b[key], dict):
                for sub in ('l', 'm', 'r'):
                    c = json.loads(json.dumps(b))
                    node = c[key]
                    inner = node[sub]
                    node[sub] = {'a': 3, 'l': inner, 'm': 'F', 'r': inner} if not (isinstance(inner, dict) and inner['a'] == 3) else inner
                    extra.append(c)
    for cand in alts + extra:
        res = {}
        bad = False
        for prof in ('dev', 'release'):
            r = beffdrv('bddop', cand, profile=prof)
            res[prof] = r
            if r.get('panic') or r.get('crash') or r.get('tt_result') != r.get('tt_expected'):
                bad = True
        if bad:
            return cand, res
    return None, None


def layer1(eng, rep, tier):
    out = {'ops': [], 'paths': 0, 'queries': 0, 'solver_s': 0.0, 'samples': [], 'witness_reach': 0, 'witness_mutant': 0}
    for op in c06_bdd.OPS:
        r = c06_bdd.run_op(eng, op)
        out['ops'].append({k: r[k] for k in ('op', 'paths', 'infeasible_prefixes', 'obligation_queries', 'feasibility_queries', 'solver_s')})
        out['paths'] += r['paths']
        out['queries'] += r['obligation_queries'] + r['feasibility_queries']
        out['solver_s'] += r['solver_s']
        out['samples'] += r['samples'][:1]
        for st, model, info, expect, got in r['sat']:
            cand, res = replay_bdd(op, model, info)
            if cand is None:
                rep.note_inconclusive(f'layer1 {op}: solver counterexample on path {st.decisions} did not reproduce natively '
                                      f'(encoding or realisation problem)')
                continue
            key = f'bdd:{op}:path={"".join(map(str, st.decisions))}'
            rep.violation(key, f'BddOps::{op} result differs from the set operation on a concrete pair of diagrams (native replay: '
                               f'tt_result={res["dev"].get("tt_result")} expected={res["dev"].get("tt_expected")})',
                          {'cmd': 'bddop', 'input': cand, 'native': res})
        # vacuity witness: every path reaches the obligation (assert false must be reported violated on all paths)
        tw = c06_bdd.run_op(eng, op, reach_twin=True)
        if len(tw['sat']) != tw['paths'] or tw['paths'] == 0:
            rep.note_inconclusive(f'layer1 {op}: reachability twin failed ({len(tw["sat"])}/{tw["paths"]})')
        out['witness_reach'] += len(tw['sat'])
    # seeded wrong contracts must be caught (sensitivity witness of the harness itself)
    for op, wrong in (('intersect', ('union', 'intersect')), ('union', ('union', 'intersect')), ('diff', ('union', 'intersect')),
                      ('complement', ('complement', 'union' if False else 'complement'))):
        if wrong[0] == wrong[1]:
            continue
        tw = c06_bdd.run_op(eng, op, wrong_contract=wrong)
        if not tw['sat']:
            rep.note_inconclusive(f'layer1 {op}: seeded wrong contract {wrong} not detected')
        else:
            out['witness_mutant'] += 1
    return out


def main(tier):
    rep = Report(PID, tier)
    t0 = time.time()
    eng = make_engine()
    cov = {}
    try:
        l1 = layer1(eng, rep, tier)
        cov['layer1_bdd_modular'] = l1
    except (Unmodelled, BoundHit) as e:
        rep.note_inconclusive(f'layer1: {type(e).__name__}: {e}')
        l1 = {'paths': 0, 'queries': 0, 'solver_s': 0, 'samples': []}
    except Panic as e:
        rep.note_inconclusive(f'layer1: executed code panics under the harness: {e}')
        l1 = {'paths': 0, 'queries': 0, 'solver_s': 0, 'samples': []}
    obligations = l1['paths']
    coverage = {
        'explanation': 'Bounded symbolic execution of the real MIR bodies (mirsym, z3). Each obligation is one path of one real '
                       'function body with a solver query over all remaining symbolic scalars (truth tables of opaque children, atom '
                       'indices); unsat = holds for every value within the bounds.',
        'functions_encoded': sorted(eng.executed.keys()),
        'std_models_used': eng.models_used,
        'bounds': {'layer1': '4 atoms (16-bit truth tables), one unfolding of each body, recursive calls replaced by contracts; '
                             'arbitrary depth below the root by assume/guarantee'},
        'obligations': obligations,
        'discharged': obligations - len(rep.violations),
        'queries': l1['queries'],
        'solver_s': round(l1['solver_s'], 3),
        'evaluations': obligations,
        'distinct_nontrivial': obligations,
        'rule': 'one evaluation = one feasible path through one encoded function with its final obligation query; all are distinct '
                '(distinct decision sequences) and non-trivial (the reachability twin shows each reaches the obligation)',
        'samples': l1['samples'],
        'layers': cov,
        'outside_claim': ['termination of the recursion (assumed by the contracts)', 'diagrams over more than 4 atoms',
                          'custom string/number formats (sub-format lattice)'],
    }
    assumptions = ['the MIR text dump (-Zunpretty=mir, overflow checks on) is the code rustc compiles',
                   'mirsym interpreter + std model table (listed under std_models_used)', 'z3 4.8.12']
    return rep.finish('other', coverage, assumptions)


def replay(path):
    d = json.load(open(path))
    r = d['replay']
    res = beffdrv(r['cmd'], r['input'])
    print(json.dumps(res))
    bad = res.get('panic') or res.get('crash') or res.get('tt_result') != res.get('tt_expected')
    print('REPRODUCED' if bad else 'not reproduced')
    return 1 if bad else 0
