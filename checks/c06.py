"""C06 — union / intersection / difference / complement are exact set operations.
Layers (DESIGN.md section 5): 1 BDD modular, 2 BDD+DNF unrolled, 3 literal sets, 4 SemType merge."""
import os, sys, time, json
import z3
from lib.common import Report, Inconclusive, mir_dump, beffdrv, REPO, seed
from mirsym.mir import Index, Layouts
from mirsym.interp import Engine, Unmodelled, BoundHit, Panic
from checks import c06_bdd, c06_dnf

PID = 'C06'


def make_engine():
    path = mir_dump('beff-core')
    ix = Index(open(path).read(), os.path.join(REPO, 'packages/beff-core/src'))
    lay = Layouts()
    lay.load_dir(os.path.join(REPO, 'packages/beff-core/src'))
    return Engine(ix, lay)


def replay_bdd(op, model, info):
    """realise the model as concrete diagrams and run the real function natively (dev and release)"""
    args = info['args']
    alts = []
    if op == 'from_node':
        atom, l, m, r = args
        a = atom.fields[0]
        a = a if isinstance(a, int) else model.eval(a, model_completion=True).as_long()
        base = {'op': op, 'atom': a, 'l': c06_bdd.value_to_json(model, l), 'm': c06_bdd.value_to_json(model, m),
                'r': c06_bdd.value_to_json(model, r), 'alias_lr': l.cell is r.cell}
        alts.append(base)
    elif op == 'complement':
        alts.append({'op': op, 'x': c06_bdd.value_to_json(model, args[0])})
    else:
        x, y = args
        alts.append({'op': op, 'x': c06_bdd.value_to_json(model, x), 'y': c06_bdd.value_to_json(model, y),
                     'alias': x.cell is y.cell})
    # alternative realisations: wrap children in a redundant node so that structurally-unequal assumptions can hold
    extra = []
    for b in alts:
        for key in ('x', 'y', 'l', 'm', 'r'):
            if key in b and isinstance(b[key], dict):
                for sub in ('l', 'm', 'r'):
                    c = json.loads(json.dumps(b))
                    node = c[key]
                    inner = node[sub]
                    node[sub] = {'a': 3, 'l': inner, 'm': 'F', 'r': inner} if not (isinstance(inner, dict) and inner['a'] == 3) else inner
                    extra.append(c)
    for cand in alts + extra:
        res = {}
        bad = False
        for prof in ('dev', 'release'):
            r = beffdrv('bddop', cand, profile=prof)
            res[prof] = r
            if r.get('panic') or r.get('crash') or r.get('tt_result') != r.get('tt_expected'):
                bad = True
        if bad:
            return cand, res
    return None, None


def layer1(eng, rep, tier):
    out = {'ops': [], 'paths': 0, 'queries': 0, 'solver_s': 0.0, 'samples': [], 'witness_reach': 0, 'witness_mutant': 0}
    for op in c06_bdd.OPS:
        r = c06_bdd.run_op(eng, op)
        out['ops'].append({k: r[k] for k in ('op', 'paths', 'infeasible_prefixes', 'obligation_queries', 'feasibility_queries', 'solver_s')})
        out['paths'] += r['paths']
        out['queries'] += r['obligation_queries'] + r['feasibility_queries']
        out['solver_s'] += r['solver_s']
        out['samples'] += r['samples'][:1]
        for st, model, info, expect, got in r['sat']:
            cand, res = replay_bdd(op, model, info)
            if cand is None:
                rep.note_inconclusive(f'layer1 {op}: solver counterexample on path {st.decisions} did not reproduce natively '
                                      f'(encoding or realisation problem)')
                continue
            key = f'bdd:{op}:path={"".join(map(str, st.decisions))}'
            rep.violation(key, f'BddOps::{op} result differs from the set operation on a concrete pair of diagrams (native replay: '
                               f'tt_result={res["dev"].get("tt_result")} expected={res["dev"].get("tt_expected")})',
                          {'cmd': 'bddop', 'input': cand, 'native': res})
        # vacuity witness: every path reaches the obligation (assert false must be reported violated on all paths)
        tw = c06_bdd.run_op(eng, op, reach_twin=True)
        if len(tw['sat']) != tw['paths'] or tw['paths'] == 0:
            rep.note_inconclusive(f'layer1 {op}: reachability twin failed ({len(tw["sat"])}/{tw["paths"]})')
        out['witness_reach'] += len(tw['sat'])
    # seeded wrong contracts must be caught (sensitivity witness of the harness itself)
    for op, wrong in (('intersect', ('union', 'intersect')), ('union', ('union', 'intersect')), ('diff', ('union', 'intersect')),
                      ('complement', ('complement', 'union' if False else 'complement'))):
        if wrong[0] == wrong[1]:
            continue
        tw = c06_bdd.run_op(eng, op, wrong_contract=wrong)
        if not tw['sat']:
            rep.note_inconclusive(f'layer1 {op}: seeded wrong contract {wrong} not detected')
        else:
            out['witness_mutant'] += 1
    return out


def _ev(model, t):
    v = model.eval(t, model_completion=True)
    return v.as_long()


def layer2(eng, rep, tier):
    out = {'cases': 0, 'paths': 0, 'queries': 0, 'solver_s': 0.0, 'samples': [], 'witness_reach': 0, 'witness_mutant': 0}

    def account(r):
        out['cases'] += 1
        out['paths'] += r['paths']
        out['queries'] += r['obligation_queries'] + r['feasibility_queries']
        out['solver_s'] += r['solver_s']
        if len(out['samples']) < 3:
            out['samples'] += r['samples'][:1]
    top = 2 if tier == 'quick' else 3
    for np_ in range(top + 1):
        for nn in range(top + 1):
            r = c06_dnf.run_recursive(eng, np_, nn)
            account(r)
            for st, model, why in r['sat']:
                # context-free replay: any mis-translation of a diagram shows up in the native bdd -> dnf -> bdd round trip of a
                # diagram that leads to the failing sub-diagram under the same positive/negative context
                cands = [{'op': 'dnf_roundtrip', 'x': d} for d in _dnf_replay_candidates(np_, nn)]
                hit = None
                for c in cands:
                    res = {p: beffdrv('bddop', c, profile=p) for p in ('dev', 'release')}
                    if any(x.get('panic') or x.get('crash') or x.get('tt_result') != x.get('tt_expected') for x in res.values()):
                        hit = (c, res)
                        break
                if hit:
                    rep.violation(f'dnf:bdd_to_dnf:{why}', f'bdd_to_dnf changes membership ({why}); native round trip differs', {'cmd': 'bddop', 'input': hit[0], 'native': hit[1]})
                else:
                    rep.note_inconclusive(f'layer2 bdd_to_dnf_recursive ({np_},{nn}) path {st.decisions}: {why}; native candidates did not reproduce')
    r = c06_dnf.run_wrapper(eng)
    account(r)
    for st, model, why in r['sat']:
        rep.note_inconclusive(f'layer2 bdd_to_dnf wrapper: {why} (no native realisation implemented)')
    import itertools
    sizes = [(a, b) for a in range(3) for b in range(3)]
    shapes = [[]] + [[s] for s in sizes] + [[s, t] for s in sizes for t in sizes]
    if tier != 'quick':
        shapes += [[(1, 1), s, t] for s in sizes for t in sizes]
    for shape in shapes:
        r = c06_dnf.run_dnf_to_bdd(eng, shape)
        account(r)
        for st, model, why in r['sat']:
            conjs = []
            for ci, (np_, nn) in enumerate(shape):
                conjs.append({'pos': [_named(model, f'c{ci}p{i}') for i in range(np_)], 'neg': [_named(model, f'c{ci}n{i}') for i in range(nn)]})
            inp = {'op': 'dnf_to_bdd', 'conjs': conjs}
            res = {p: beffdrv('bddop', inp, profile=p) for p in ('dev', 'release')}
            if any(x.get('panic') or x.get('crash') or x.get('tt_result') != x.get('tt_expected') for x in res.values()):
                rep.violation(f'dnf:dnf_to_bdd:{len(shape)}', f'dnf_to_bdd changes membership for {json.dumps(conjs)}', {'cmd': 'bddop', 'input': inp, 'native': res})
            else:
                rep.note_inconclusive(f'layer2 dnf_to_bdd {shape}: counterexample did not reproduce natively: {json.dumps(conjs)}')
    # twins
    tw = c06_dnf.run_recursive(eng, 1, 1, reach_twin=True)
    if tw['paths'] and len(tw['sat']) == tw['paths']:
        out['witness_reach'] += 1
    else:
        rep.note_inconclusive('layer2: reachability twin failed')
    tw = c06_dnf.run_recursive(eng, 1, 1, wrong=True)
    tw2 = c06_dnf.run_dnf_to_bdd(eng, [(1, 1)], wrong=('intersect', 'union'))
    if tw['sat'] and tw2['sat']:
        out['witness_mutant'] += 2
    else:
        rep.note_inconclusive('layer2: seeded wrong contract not detected')
    out['solver_s'] = round(out['solver_s'], 3)
    return out


def _named(model, name):
    for d in model.decls():
        if d.name() == name:
            return model[d].as_long()
    return 0


def _dnf_replay_candidates(np_, nn):
    """small diagrams over 4 atoms exercising every branch kind under a context of np_ positive / nn negative atoms"""
    leaves = ['T', 'F']
    base = []
    for l in leaves:
        for m in leaves:
            for r in leaves:
                base.append({'a': 3, 'l': l, 'm': m, 'r': r})
                base.append({'a': 2, 'l': {'a': 3, 'l': l, 'm': m, 'r': r}, 'm': m, 'r': {'a': 3, 'l': r, 'm': 'F', 'r': l}})
    out = []
    for b in base:
        x = b
        for i in range(nn):
            x = {'a': 1, 'l': 'F', 'm': 'F', 'r': x}
        for i in range(np_):
            x = {'a': 0, 'l': x, 'm': 'F', 'r': 'F'}
        out.append(x)
    return out


# ---------------------------------------------------------------------------------- layers 3 and 4 (process pool)
_WENG = None


def _worker(task):
    """runs one case in a worker process; returns a picklable summary (models concretised to JSON)"""
    global _WENG
    from checks import c06_lit, c06_sem
    if _WENG is None:
        _WENG = make_engine()
    eng = _WENG
    eng.contracts.clear()
    layer = task['layer']
    t0 = time.time()
    out = {'task': task, 'paths': 0, 'queries': 0, 'solver_s': 0.0, 'sat': [], 'samples': [], 'error': None}
    try:
        if layer == 3:
            r = c06_lit.run_case(eng, task['op'], task['kind'], task['a1'], task['a2'], task['n1'], task['n2'], frac=task.get('frac', False),
                                 reach_twin=task.get('reach', False), spec_override=task.get('spec'), shard=task.get('shard'), kinds_only=task.get('kinds_only', False))
            for st, model, info, why in r['sat'][:5]:
                item = {'why': why, 'decisions': ''.join(map(str, st.decisions))}
                if model is not None:
                    item['input'] = {'op': task['op'], 'a': c06_lit.concretise(task['kind'], info.get('a'), model),
                                     'b': c06_lit.concretise(task['kind'], info.get('b'), model) if info.get('b') is not None else None,
                                     'probe': _probe_of(task['kind'], model)}
                out['sat'].append(item)
            out['nsat'] = len(r['sat'])
        else:
            r = c06_sem.run_case(eng, task['op'], task['n1'], task['n2'], reach_twin=task.get('reach', False), wrong=task.get('wrong'),
                                 shard=task.get('shard'))
            for st, model, inputs, t, why in r['sat'][:5]:
                item = {'why': why, 'decisions': ''.join(map(str, st.decisions))}
                if model is not None:
                    d = c06_sem.concretise(model, inputs, t)
                    d['op'] = task['op']
                    item['input'] = d
                out['sat'].append(item)
            out['nsat'] = len(r['sat'])
        out['paths'] = r['paths']
        out['queries'] = r['obligation_queries'] + r['feasibility_queries']
        out['solver_s'] = r['solver_s']
        out['samples'] = r['samples']
    except Panic as e:
        out['error'] = f'panic: {e}'
        out['panic'] = str(e)
    except (Unmodelled, BoundHit) as e:
        out['error'] = f'{type(e).__name__}: {e}'
    except Exception as e:   # engine bug: never a pass
        import traceback
        out['error'] = 'internal: ' + traceback.format_exc()[-1500:]
    out['executed'] = dict(eng.executed)
    out['models'] = dict(eng.models_used)
    out['wall'] = time.time() - t0
    return out


def _probe_of(kind, model):
    vals = {}
    for d in model.decls():
        n = d.name()
        if n.startswith('probe'):
            vals[n] = model[d]
    if kind == 'Boolean':
        for n, v in vals.items():
            return bool(v.as_long())
        return False
    ints = [v for n, v in sorted(vals.items()) if '_int' in n or '_str' in n or '_tak' in n or '_vu' in n]
    fr = [v for n, v in sorted(vals.items()) if '_frac' in n]
    if not ints:
        return [0]
    return [ints[0].as_signed_long() if kind == 'Number' else ints[0].as_long()] + ([fr[0].as_signed_long()] if fr else [])


def lit_tasks(tier):
    tasks = []
    if tier == 'quick':
        lens = {'Number': [1, 2], 'String': [1, 2], 'TypedArray': [1, 2]}
    else:
        lens = {'Number': [1, 2, 3], 'String': [1, 2, 3], 'TypedArray': [1, 2, 3]}
    for kind, ls in lens.items():
        for op in ('union', 'intersect', 'diff'):
            for a1 in (True, False):
                for a2 in (True, False):
                    for n1 in ls:
                        for n2 in ls:
                            t = {'layer': 3, 'op': op, 'kind': kind, 'a1': a1, 'a2': a2, 'n1': n1, 'n2': n2}
                            if n1 == 3 and n2 == 3:
                                for i in range(8):
                                    tasks.append(dict(t, shard=(i, 8)))
                            else:
                                tasks.append(t)
        for a1 in (True, False):
            for n1 in ls:
                tasks.append({'layer': 3, 'op': 'complement', 'kind': kind, 'a1': a1, 'a2': True, 'n1': n1, 'n2': 0})
    for op in ('union', 'intersect', 'diff', 'complement'):
        tasks.append({'layer': 3, 'op': op, 'kind': 'Boolean', 'a1': True, 'a2': True, 'n1': 0, 'n2': 0})
        # the diagram-backed tags: opaque diagrams, BDD operations by contract; obligation = tag and table of the result
        for kind in ('Mapping', 'List', 'Map', 'Set'):
            tasks.append({'layer': 3, 'op': op, 'kind': kind, 'a1': True, 'a2': True, 'n1': 0, 'n2': 0})
    # VoidUndefined: shape of the result only (see c06_lit.run_case)
    for op in ('union', 'intersect', 'diff'):
        for a1 in (True, False):
            for a2 in (True, False):
                for n1 in (1, 2):
                    for n2 in (1, 2):
                        tasks.append({'layer': 3, 'op': op, 'kind': 'VoidUndefined', 'a1': a1, 'a2': a2, 'n1': n1, 'n2': n2, 'kinds_only': True})
    if tier != 'quick':
        for op in ('union', 'intersect', 'diff'):
            for a1 in (True, False):
                for a2 in (True, False):
                    tasks.append({'layer': 3, 'op': op, 'kind': 'Number', 'a1': a1, 'a2': a2, 'n1': 2, 'n2': 2, 'frac': True})
    return tasks


def sem_tasks(tier):
    tasks = []
    top = 2 if tier == 'quick' else 3
    for op in ('union', 'intersect', 'diff'):
        for n1 in range(top + 1):
            for n2 in range(top + 1):
                t = {'layer': 4, 'op': op, 'n1': n1, 'n2': n2}
                if n1 + n2 >= 5:
                    for i in range(12):
                        tasks.append(dict(t, shard=(i, 12)))
                else:
                    tasks.append(t)
    for n1 in range(top + 1):
        tasks.append({'layer': 4, 'op': 'complement', 'n1': n1, 'n2': 0})
    return tasks


def twin_tasks():
    """vacuity and sensitivity witnesses of the layer 3/4 harnesses"""
    return [
        {'layer': 3, 'op': 'union', 'kind': 'Number', 'a1': True, 'a2': True, 'n1': 2, 'n2': 1, 'reach': True, 'twin': 'reach'},
        {'layer': 3, 'op': 'union', 'kind': 'Number', 'a1': True, 'a2': False, 'n1': 1, 'n2': 2, 'spec': 'intersect', 'twin': 'mutant'},
        {'layer': 3, 'op': 'diff', 'kind': 'String', 'a1': False, 'a2': True, 'n1': 1, 'n2': 1, 'spec': 'union', 'twin': 'mutant'},
        {'layer': 4, 'op': 'intersect', 'n1': 1, 'n2': 2, 'reach': True, 'twin': 'reach'},
        {'layer': 4, 'op': 'union', 'n1': 1, 'n2': 1, 'wrong': {'union': 'intersect'}, 'twin': 'mutant'},
        {'layer': 4, 'op': 'diff', 'n1': 2, 'n2': 1, 'wrong': {'diff': 'intersect'}, 'twin': 'mutant'},
    ]


def replay_lit(inp):
    res = {}
    bad = False
    for prof in ('dev', 'release'):
        r = beffdrv('properop', inp, profile=prof)
        res[prof] = r
        if r.get('panic') or r.get('crash') or r.get('error') or r.get('wrong_kind') or r.get('got') != r.get('expected'):
            bad = True
    return bad, res


def replay_sem(inp):
    res = {}
    bad = False
    for prof in ('dev', 'release'):
        r = beffdrv('semop', inp, profile=prof)
        res[prof] = r
        if r.get('panic') or r.get('crash') or r.get('error') or r.get('invariant_ok') is False or r.get('got') != r.get('expected'):
            bad = True
    return bad, res


def layers34(rep, tier):
    import multiprocessing as mp
    tasks = lit_tasks(tier) + sem_tasks(tier)
    twins = twin_tasks()
    import random
    random.Random(seed()).shuffle(tasks)
    # biggest first for better packing
    tasks.sort(key=lambda t: -(t.get('n1', 0) + t.get('n2', 0)))
    agg = {3: {'cases': 0, 'paths': 0, 'queries': 0, 'solver_s': 0.0, 'samples': []},
           4: {'cases': 0, 'paths': 0, 'queries': 0, 'solver_s': 0.0, 'samples': []}}
    executed, models = {}, {}
    witness = {'reach': 0, 'mutant': 0}
    with mp.Pool(min(16, os.cpu_count() or 4)) as pool:
        for out in pool.imap_unordered(_worker, twins + tasks):
            t = out['task']
            for k, v in out.get('executed', {}).items():
                executed[k] = executed.get(k, 0) + v
            for k, v in out.get('models', {}).items():
                models[k] = models.get(k, 0) + v
            label = f"layer{t['layer']} {t.get('kind', '')} {t['op']} allowed=({t.get('a1')},{t.get('a2')}) lens=({t['n1']},{t['n2']})"
            if t.get('twin'):
                if out['error']:
                    rep.note_inconclusive(f'{label}: twin failed: {out["error"]}')
                elif t['twin'] == 'reach' and (out['paths'] == 0 or out.get('nsat') != out['paths']):
                    rep.note_inconclusive(f'{label}: reachability twin: {out.get("nsat")}/{out["paths"]} paths reach the obligation')
                elif t['twin'] == 'mutant' and not out.get('nsat'):
                    rep.note_inconclusive(f'{label}: seeded wrong specification/contract not detected')
                else:
                    witness[t['twin']] += 1
                continue
            a = agg[t['layer']]
            a['cases'] += 1
            a['paths'] += out['paths']
            a['queries'] += out['queries']
            a['solver_s'] += out['solver_s']
            if len(a['samples']) < 3:
                a['samples'] += out['samples'][:1]
            if out.get('panic'):
                # a panic of the real code under valid inputs: replay needs a model, which a panic path does not carry here
                rep.note_inconclusive(f'{label}: executed code panics on a feasible path: {out["panic"]}')
                continue
            if out['error']:
                rep.note_inconclusive(f'{label}: {out["error"]}')
                continue
            for item in out['sat']:
                if 'input' not in item:
                    rep.note_inconclusive(f'{label}: {item["why"]} on path {item["decisions"]} (no model to replay)')
                    continue
                if t['layer'] == 3:
                    bad, res = replay_lit(item['input'])
                    cmd = 'properop'
                    key = f"lit:{t['kind']}:{t['op']}:allowed={int(t['a1'])}{int(t['a2'])}"
                else:
                    bad, res = replay_sem(item['input'])
                    cmd = 'semop'
                    key = f"sem:{t['op']}:{item['why'][:20]}"
                if not bad:
                    rep.note_inconclusive(f'{label}: solver counterexample did not reproduce natively: {json.dumps(item["input"])[:300]}')
                    continue
                rep.violation(key, f'{label}: {item["why"]}; native replay got={res["dev"].get("got")} expected={res["dev"].get("expected")} '
                                   f'result={str(res["dev"].get("result"))[:160]}', {'cmd': cmd, 'input': item['input'], 'native': res})
    for k in agg:
        agg[k]['solver_s'] = round(agg[k]['solver_s'], 2)
    return agg, executed, models, witness


def main(tier):
    rep = Report(PID, tier)
    t0 = time.time()
    eng = make_engine()
    cov = {}
    try:
        l1 = layer1(eng, rep, tier)
        cov['layer1_bdd_modular'] = l1
    except (Unmodelled, BoundHit) as e:
        rep.note_inconclusive(f'layer1: {type(e).__name__}: {e}')
        l1 = {'paths': 0, 'queries': 0, 'solver_s': 0, 'samples': []}
    except Panic as e:
        rep.note_inconclusive(f'layer1: executed code panics under the harness: {e}')
        l1 = {'paths': 0, 'queries': 0, 'solver_s': 0, 'samples': []}
    try:
        l2 = layer2(eng, rep, tier)
        cov['layer2_dnf_modular'] = l2
    except (Unmodelled, BoundHit) as e:
        rep.note_inconclusive(f'layer2: {type(e).__name__}: {e}')
        l2 = {'paths': 0, 'queries': 0, 'solver_s': 0, 'samples': []}
    except Panic as e:
        rep.note_inconclusive(f'layer2: executed code panics under the harness: {e}')
        l2 = {'paths': 0, 'queries': 0, 'solver_s': 0, 'samples': []}
    agg, executed, models, witness = layers34(rep, tier)
    cov['layer3_literal_sets'] = agg[3]
    cov['layer4_semtype_merge'] = agg[4]
    cov['twins'] = witness
    for k, v in executed.items():
        eng.executed[k] = eng.executed.get(k, 0) + v
    for k, v in models.items():
        eng.models_used[k] = eng.models_used.get(k, 0) + v
    obligations = l1['paths'] + l2['paths'] + agg[3]['paths'] + agg[4]['paths']
    l1 = dict(l1)
    l1['queries'] = l1['queries'] + l2['queries'] + agg[3]['queries'] + agg[4]['queries']
    l1['solver_s'] = l1['solver_s'] + l2['solver_s'] + agg[3]['solver_s'] + agg[4]['solver_s']
    l1['samples'] = l1['samples'][:3] + l2['samples'][:2] + agg[3]['samples'][:2] + agg[4]['samples'][:2]
    coverage = {
        'explanation': 'Bounded symbolic execution of the real MIR bodies (mirsym, z3). Each obligation is one path of one real '
                       'function body with a solver query over all remaining symbolic scalars (truth tables of opaque children, atom '
                       'indices); unsat = holds for every value within the bounds.',
        'functions_encoded': sorted(eng.executed.keys()),
        'std_models_used': eng.models_used,
        'bounds': {'layer1': '4 atoms (16-bit truth tables), one unfolding of each body, recursive calls replaced by contracts; '
                             'arbitrary depth below the root by assume/guarantee',
                   'layer2': 'bdd_to_dnf_recursive: one unfolding under a context of <= %d positive and <= %d negative symbolic atoms, recursive '
                             'calls by contract; dnf_to_bdd: DNFs of <= %d conjunctions with <= 2 positive and <= 2 negative symbolic atoms each, BDD '
                             'operations by the layer-1 contracts' % ((2, 2, 2) if tier == 'quick' else (3, 3, 3)),
                   'layer3': 'ProperSubtypeOps on Boolean/Number/String/TypedArray: literal lists of length <= %d per operand, any (unsorted, '
                             'possibly repeating) 64-bit integer literals / opaque totally ordered strings / typed-array kinds, both allowed flags; '
                             'real sub_vec_union/intersect/diff underneath' % (2 if tier == 'quick' else 3),
                   'layer4': 'SemTypeOps with <= %d proper entries per operand, all 13-bit `all` bitsets, symbolic tags (ascending, disjoint '
                             'from `all`: the representation invariant, also asserted of every result), per-tag operations by contract' % (2 if tier == 'quick' else 3)},
        'obligations': obligations,
        'discharged': obligations - len(rep.violations),
        'queries': l1['queries'],
        'solver_s': round(l1['solver_s'], 3),
        'evaluations': obligations,
        'distinct_nontrivial': obligations,
        'rule': 'one evaluation = one feasible path through one encoded function with its final obligation query; all are distinct '
                '(distinct decision sequences) and non-trivial (the reachability twin shows each reaches the obligation)',
        'samples': l1['samples'],
        'layers': cov,
        'outside_claim': ['termination of the recursion (assumed by the contracts)', 'diagrams over more than 4 atoms',
                          'custom string/number formats and the void/undefined pair (list elements that are types in a sub-type lattice, not '
                          'values)', 'template-literal string subtypes with more than one item', 'literal lists longer than the bound'],
    }
    assumptions = ['the MIR text dump (-Zunpretty=mir, overflow checks on) is the code rustc compiles',
                   'mirsym interpreter + std model table (listed under std_models_used)', 'z3 4.8.12']
    return rep.finish('other', coverage, assumptions)


def replay(path):
    d = json.load(open(path))
    r = d['replay']
    res = beffdrv(r['cmd'], r['input'])
    print(json.dumps(res))
    if r['cmd'] == 'bddop':
        bad = res.get('panic') or res.get('crash') or res.get('tt_result') != res.get('tt_expected')
    else:
        bad = res.get('panic') or res.get('crash') or res.get('error') or res.get('wrong_kind') or res.get('invariant_ok') is False \
            or res.get('got') != res.get('expected')
    print('REPRODUCED' if bad else 'not reproduced')
    return 1 if bad else 0
