"""C02 — emitted JSON Schema and validator agree on JSON documents.
schema() / schemaWithContext()+exportDefinitions() run concretely on the real runtime; the emitted document J is interpreted by a Draft 2020-12 evaluator
(harness) on a symbolic JSON document d together with the real validator: valid(J,d) => validate(d) and no undeclared key; null-free exact members
are valid(J,d); J uses only known keywords with well-typed operands and every $ref resolves; non-JSON types make schema printing throw."""
import os, sys, json, time, random, multiprocessing as mp
from lib.common import Report, Inconclusive, seed
from checks import valcheck, c13, c01

PID = 'C02'
JSON_KINDS = ['null', 'true', 'false', 'number', 'string', 'object']
NONJSON = {'date', 'bigint', 'map', 'set', 'typedarray'}


def is_recursive_spec(s, defs, stack=()):
    t = s['t']
    if t == 'ref':
        if s['name'] in stack:
            return True
        return is_recursive_spec(defs[s['name']], defs, stack + (s['name'],))
    kids = []
    if t == 'object':
        kids = list(s['props'].values()) + [p['value'] for p in s.get('index') or []]
    elif t in ('optional', 'array', 'set'):
        kids = [s['x']]
    elif t == 'tuple':
        kids = s['prefix'] + ([s['rest']] if s['rest'] else [])
    elif t in ('anyof', 'allof'):
        kids = s['xs']
    elif t == 'disc':
        kids = list(s['mapping'].values())
    elif t == 'map':
        kids = [s['k'], s['v']]
    return any(is_recursive_spec(k, defs, stack) for k in kids)


def jobs_for(name, spec, defs, tier, module=None, parser=None, plain=None):
    feats = valcheck.spec_features(spec, defs)
    out = []
    for null_free in (False, True):
        j = valcheck.make_job(f'{name}:{"nf" if null_free else "n"}', spec, defs, PID, tier, module=module, parser=parser, hostile=False)
        L = min(3, max(1, valcheck.max_tuple(spec, defs) + 1))
        kinds = [k for k in JSON_KINDS if not (null_free and k == 'null')] + [f'array{i}' for i in range(L + 1)]
        j['kinds'] = kinds
        j['midKinds'] = [k for k in kinds if k not in ('false',)]
        j['leafKinds'] = [k for k in kinds if k in ('null', 'true', 'number', 'string', 'array0')]
        j['nullFree'] = null_free
        j['expectSchemaThrows'] = bool(feats & NONJSON)
        j['options'] = [{}]
        j['recursive'] = 'ref' in feats and is_recursive_spec(spec, defs)
        if j['expectSchemaThrows'] and null_free:
            continue
        out.append(j)
    return out


def c02_role(job, feats):
    spec, defs = job['spec'], job['defs']
    if 'allof' in feats:
        return 'allof-of-closed-objects'
    def res(s, g=0):
        while s['t'] == 'ref' and g < 20:
            s = defs[s['name']]
            g += 1
        return s
    s = res(spec)
    if s['t'] == 'anyof':
        ms = [res(x) for x in s['xs']]
        if all(m['t'] == 'object' for m in ms):
            for k in set.intersection(*[set(m['props']) for m in ms]) if ms else []:
                vals = [res(m['props'][k]) for m in ms]
                if any(v['t'] in ('anyof', 'consts') for v in vals) and all(v['t'] in ('anyof', 'consts', 'const') for v in vals):
                    return 'discriminator-with-several-values'
    return '+'.join(feats)


def selftest(paths, parser):
    import subprocess
    outs = []
    for tag in ('plain', 'inst'):
        code = (f"const m = await import({json.dumps(paths[tag])}); const p = m.parsers[{json.dumps(parser)}]; const f = (g) => {{ try {{ return g(); }} catch (e) {{ return 'throws ' + e.message; }} }};"
                "console.log(JSON.stringify([f(() => p.schema()), f(() => p.describe()), f(() => p.hash256()), f(() => p.hash())]));")
        r = subprocess.run(['node', '--input-type=module', '-e', code], stdout=subprocess.PIPE, stderr=subprocess.PIPE, text=True, timeout=60, env=valcheck.ENV)
        if r.returncode != 0:
            return None
        outs.append(r.stdout)
    return outs[0] == outs[1]


def main(tier):
    rep = Report(PID, tier)
    c13.build_runtime()
    rng = random.Random(seed())
    jobs, plain = [], {}
    for name, spec, defs in valcheck.FIXED_SPECS:
        if 'any' in valcheck.spec_features(spec, defs) and name == 'any-never':
            pass
        jobs += jobs_for(name, spec, defs, tier)
    progs = c01.programs(tier, rng, style=0)
    samples = []
    for i, t in enumerate(progs):
        src = '\n'.join(dict.fromkeys(t.decls)) + f'\ntype Root{i} = {t.ts};'
        try:
            paths, _, _ = valcheck.compile_program(f'p{i}', src, f'Root{i}')
        except (valcheck.Unsupported, Inconclusive):
            continue
        # engine self-test: the instrumented runtime must print exactly what the merely stripped runtime prints (concrete runs)
        if selftest(paths, f'Root{i}') is False:
            rep.note_inconclusive(f'instrumented and stripped runtime disagree on schema()/describe()/hash256() for `{src[-120:]}` (instrumentation bug)')
        for j in jobs_for(f'p{i}', t.spec, c01.ALL_DEFS, tier, module=paths['inst'], parser=f'Root{i}'):
            j['source'] = src
            plain[j['name']] = paths['plain']
            jobs.append(j)
        if len(samples) < 4:
            samples.append({'program': src[-200:]})
    byname = {j['name']: j for j in jobs}
    agg = {'jobs': len(jobs), 'paths': 0, 'queries': 0, 'solver_s': 0.0}
    with mp.Pool(min(16, os.cpu_count() or 4)) as pool:
        results = list(pool.imap_unordered(valcheck._task, [(j,) for j in jobs]))
    for res in results:
        job = byname[res['job']]
        label = job.get('source', json.dumps(job['spec']))[-160:]
        if 'harness_error' in res:
            rep.note_inconclusive(f'{label}: harness failed: {res["harness_error"][:300]}')
            continue
        agg['paths'] += res['paths']
        agg['queries'] += res['stats']['queries']
        agg['solver_s'] += res['stats']['solver_ms'] / 1000.0
        if res.get('bound_hit'):
            rep.note_inconclusive(f'{label}: path bound hit')
        if res['unmodelled']:
            rep.note_inconclusive(f'{label}: unmodelled: {sorted(set(res["unmodelled"]))[:3]}')
        for e in res['errors'][:2]:
            rep.note_inconclusive(f'{label}: harness exception: {e["message"][:300]}')
        feats = sorted(valcheck.spec_features(job['spec'], job['defs']) & {'index-sig', 'regex', 'tuple-rest', 'tuple-closed', 'allof', 'disc', 'consts', 'ref', 'anyof', 'any', 'never', 'optional'})
        seen = set()
        for v in res['violations']:
            if v['prop'] != PID:
                continue
            import re
            cls = valcheck.msg_class(re.sub(r'\((flat|contextual[^)]*)\)\s*', '', v['what']))
            if cls in seen:
                continue
            seen.add(cls)
            rj = dict(job)
            rj['concrete'] = v.get('concrete')
            if job.get('module'):
                rj['module'] = plain[job['name']]
            rr = valcheck.run_harness(rj, valcheck.RT, timeout=120)
            if not [x for x in rr.get('violations', []) if x['prop'] == PID]:
                rep.note_inconclusive(f'{label}: violation "{cls}" did not reproduce on the stripped runtime; witness {json.dumps(v.get("concrete"))[:160]}')
                continue
            rep.violation(f'c02:{cls}:{c02_role(job, feats)}', f'`{label}`: {v["what"]} for the document {v["input"][:120]} (witness {json.dumps(v.get("concrete"))[:160]})', {'cmd': 'val', 'job': rj})
    coverage = {
        'programs': agg['jobs'], 'disagreements_checked': len(rep.violations) + len(rep.known_hit),
        'samples': samples or [{'program': 'none'}],
        'explanation': 'schema printing runs concretely (flat, contextual with #/$defs/{name} + container $defs, contextual with #/components/schemas/{name} + no container); a Draft '
                       '2020-12 evaluator interprets the emitted document on a symbolic JSON document next to the real validator',
        'evaluations': agg['paths'], 'distinct_nontrivial': agg['paths'], 'queries': agg['queries'], 'solver_s': round(agg['solver_s'], 2),
        'bounds': 'JSON documents: null/boolean/number(finite)/string/array/object, depth <= 2 below the root, arrays <= longest tuple + 1, keys = declared + 1 fresh',
        'outside_claim': ['JSON Schema keywords beff never emits', 'format (annotation only)', 'other refPathTemplate / container combinations', 'namedTypeSchemaOverrides'],
    }
    return rep.finish('translation_validation', coverage, ['the Draft 2020-12 evaluator in jsdse/val_harness.mjs', 'jsdse engine assumptions as for C03', 'z3 4.8.12'])


def replay(path):
    d = json.load(open(path))
    c13.build_runtime()
    r = valcheck.run_harness(d['replay']['job'], valcheck.RT, timeout=120)
    print(json.dumps(r)[:2000])
    return 1 if [v for v in r.get('violations', []) if v['prop'] == PID] else 0
