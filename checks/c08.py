"""C08 — meaning-preserving rewrites of the source do not change validators.
Every generated program is produced in two spellings (checks/c01.py STYLE 0 / 1: reordered members, properties and declarations, extra aliases and
identity generics, parentheses, readonly, comments / JSDoc, interface <-> object type, Array<T> <-> T[]).  Both are compiled by the real compiler;
hash256 must be equal (concrete) and the two validators must agree on every path of a symbolic value (jsdse, z3)."""
import os, sys, json, time, random, multiprocessing as mp
from lib.common import Report, Inconclusive, beffdrv, seed
from checks import valcheck, c13, c01

PID = 'C08'


def hashes(module, parser):
    import subprocess
    code = f"const m = await import({json.dumps(module)}); const p = m.parsers[{json.dumps(parser)}]; console.log(JSON.stringify({{h: p.hash(), h256: p.hash256()}}));"
    r = subprocess.run(['node', '--input-type=module', '-e', code], stdout=subprocess.PIPE, stderr=subprocess.PIPE, text=True, timeout=60, env=valcheck.ENV)
    if r.returncode != 0:
        raise Inconclusive('hash evaluation failed: ' + r.stderr[-300:])
    return json.loads(r.stdout)


def main(tier):
    rep = Report(PID, tier)
    c13.build_runtime()
    sd = seed()
    pa = c01.programs(tier, random.Random(sd), style=0)
    pb = c01.programs(tier, random.Random(sd), style=1)
    assert len(pa) == len(pb)
    jobs, plainA, plainB, samples = [], {}, {}, []
    skipped = 0
    stats = {'pairs': 0, 'hash256_equal': 0}
    for i, (a, b) in enumerate(zip(pa, pb)):
        if json.dumps(a.spec, sort_keys=True) != json.dumps(b.spec, sort_keys=True) and not same_meaning(a.spec, b.spec):
            continue
        srcA = '\n'.join(dict.fromkeys(a.decls)) + f'\ntype Root{i} = {a.ts};'
        declsB = list(dict.fromkeys(b.decls))
        srcB = '\n'.join(reversed(declsB)) + f'\n/** the root */\ntype Root{i} = ({b.ts});'
        try:
            pathsA, irsA, irdA = valcheck.compile_program(f'a{i}', srcA, f'Root{i}')
            pathsB, irsB, irdB = valcheck.compile_program(f'b{i}', srcB, f'Root{i}')
        except (valcheck.Unsupported, Inconclusive) as e:
            skipped += 1
            if 'b' in str(e)[:20] or True:
                # a rewritten program that no longer compiles while the original does is itself a violation of the property
                try:
                    valcheck.compile_program(f'a{i}', srcA, f'Root{i}')
                    okA = True
                except Exception:
                    okA = False
                if okA and isinstance(e, Inconclusive):
                    rep.violation('c08:rewritten-program-rejected:' + c01.construct_of(srcA), f'the rewritten program is rejected by the compiler: {srcB[-300:]} :: {str(e)[:200]}',
                                  {'cmd': 'compile', 'input': {'files': {'entry.ts': srcB + f'\nparse.buildParsers<{{Root{i}: Root{i}}}>();'}}})
            continue
        stats['pairs'] += 1
        ha, hb = hashes(pathsA['plain'], f'Root{i}'), hashes(pathsB['plain'], f'Root{i}')
        if ha['h256'] == hb['h256']:
            stats['hash256_equal'] += 1
        else:
            rep.violation('c08:hash256:' + hash_role((irsA, irdA), (irsB, irdB), c01.construct_of(srcA)), f'hash256 differs between the program and its rewrite: `{srcA[-200:]}` vs `{srcB[-260:]}`',
                          {'cmd': 'hash', 'a': srcA, 'b': srcB})
        defs = c01.ALL_DEFS
        job = valcheck.make_job(f'p{i}', a.spec, defs, PID, tier, module=pathsA['inst'], parser=f'Root{i}', hostile=False)
        job['moduleB'] = pathsB['inst']
        job['parserB'] = f'Root{i}'
        job['sources'] = [srcA, srcB]
        plainA[job['name']], plainB[job['name']] = pathsA['plain'], pathsB['plain']
        jobs.append(job)
        if len(samples) < 4:
            samples.append({'program': srcA[-160:], 'rewritten': srcB[-240:]})
    byname = {j['name']: j for j in jobs}
    agg = {'jobs': len(jobs), 'paths': 0, 'refinements': 0, 'queries': 0, 'solver_s': 0.0}
    with mp.Pool(min(16, os.cpu_count() or 4)) as pool:
        results = list(pool.imap_unordered(valcheck._task, [(j,) for j in jobs]))
    for res in results:
        job = byname[res['job']]
        if 'harness_error' in res:
            rep.note_inconclusive(f'{job["sources"][0][-100:]}: harness failed: {res["harness_error"][:300]}')
            continue
        agg['paths'] += res['paths']
        agg['refinements'] += res['refinements']
        agg['queries'] += res['stats']['queries']
        agg['solver_s'] += res['stats']['solver_ms'] / 1000.0
        if res.get('bound_hit'):
            rep.note_inconclusive(f'{job["sources"][0][-100:]}: path bound hit')
        if res['unmodelled']:
            rep.note_inconclusive(f'{job["sources"][0][-100:]}: unmodelled: {sorted(set(res["unmodelled"]))[:3]}')
        vs = [v for v in res['violations'] if v['prop'] == PID]
        if vs:
            v = vs[0]
            rj = dict(job)
            rj['concrete'] = v.get('concrete')
            rj['module'], rj['moduleB'] = plainA[job['name']], plainB[job['name']]
            rr = valcheck.run_harness(rj, valcheck.RT, timeout=120)
            if [x for x in rr.get('violations', []) if x['prop'] == PID]:
                rep.violation('c08:validate:' + c01.construct_of(job['sources'][0]), f'the program and its rewrite disagree on {v["input"][:120]}: `{job["sources"][0][-200:]}` vs `{job["sources"][1][-260:]}`',
                              {'cmd': 'val', 'job': rj})
            else:
                rep.note_inconclusive('disagreement did not reproduce on the stripped runtime')
    coverage = {
        'explanation': 'pairs (program, rewritten program) compiled by the real compiler; hash256 compared concretely; validate() of both explored on one shared symbolic value',
        'evaluations': agg['paths'], 'distinct_nontrivial': agg['paths'], 'rule': 'one evaluation = one joint path of the two validators on the symbolic value',
        'samples': samples or [{'program': 'none'}], 'pairs': stats['pairs'], 'hash256_equal': stats['hash256_equal'], 'not_compiling': skipped, 'queries': agg['queries'],
        'solver_s': round(agg['solver_s'], 2),
        'rewrites': ['union / intersection member order', 'property order', 'declaration order', 'alias introduction / renaming', 'identity generic wrapper', 'parentheses', 'readonly',
                     'comments and JSDoc', 'interface <-> object type alias', 'Array<T> <-> T[] <-> ReadonlyArray<T>'],
        'bounds': 'as C01', 'outside_claim': ['compositions of rewrites other than the fixed style', 'programs not generated'],
    }
    return rep.finish('other', coverage, ['jsdse engine assumptions as for C03', 'the two spellings generated by checks/c01.py are equivalent TypeScript'])


def inline_refs(s, defs, flatten, sort, stack=()):
    if isinstance(s, list):
        return [inline_refs(x, defs, flatten, sort, stack) for x in s]
    if not isinstance(s, dict):
        return s
    if s.get('t') == 'ref':
        if s['name'] in stack or s['name'] not in defs:
            return {'t': 'ref', 'name': 'rec'}
        return inline_refs(defs[s['name']], defs, flatten, sort, stack + (s['name'],))
    d = {k: inline_refs(v, defs, flatten, sort, stack) for k, v in s.items()}
    if d.get('t') in ('anyof', 'allof'):
        xs = []
        for x in d['xs']:
            if flatten and isinstance(x, dict) and x.get('t') == d['t']:
                xs += x['xs']
            else:
                xs.append(x)
        if flatten:
            # a union flattened through a reference can repeat a member the outer union already has (`null | Alias` with Alias = `null | 1`)
            seen, uniq = set(), []
            for x in xs:
                kx = json.dumps(x, sort_keys=True)
                if kx not in seen:
                    seen.add(kx)
                    uniq.append(x)
            xs = uniq
            if len(xs) == 1:
                return xs[0]       # `null | Alias` with Alias = null
        d['xs'] = sorted(xs, key=lambda x: json.dumps(x, sort_keys=True)) if sort else xs
    return d


def hash_role(irA, irB, construct):
    """role of a hash256 difference between two programs with the same meaning, from the IRs the real frontend produced:
    same-ir            the IRs are identical once references are inlined (the difference arises after the frontend: printer / runtime)
    member-order       they differ only in the order of union / intersection members (a reference sorts differently from the type it names)
    union-alias-inside-union   they differ only by a union nested in a union through a reference
    different-ir       anything else"""
    (sa, da), (sb, db) = irA, irB

    def direct_nested(x):
        if isinstance(x, list):
            return any(direct_nested(y) for y in x)
        if isinstance(x, dict):
            if x.get('t') in ('anyof', 'allof') and any(isinstance(y, dict) and y.get('t') == x['t'] for y in x.get('xs', [])):
                return True
            return any(direct_nested(v) for v in x.values())
        return False
    if direct_nested([sa, list(da.values()), sb, list(db.values())]):
        return 'union-nested-directly:' + construct      # the frontend left a union directly inside a union (no alias in between)

    def j(flatten, sort):
        return json.dumps(inline_refs(sa, da, flatten, sort), sort_keys=True), json.dumps(inline_refs(sb, db, flatten, sort), sort_keys=True)
    a, b = j(False, False)
    if a == b:
        if '"name": "rec"' in a:
            return 'same-ir-recursive'       # recursive types: cycle ids are numbered along the reference path from the root
        return 'same-ir:' + construct
    a, b = j(False, True)
    if a == b:
        return 'member-order-through-alias'
    a, b = j(True, True)
    if a == b:
        return 'union-alias-inside-union'
    return 'different-ir:' + construct


def same_meaning(a, b):
    """specs equal up to the order of union / intersection members and object properties"""
    def norm(s):
        if isinstance(s, dict):
            d = {k: norm(v) for k, v in s.items()}
            if d.get('t') in ('anyof', 'allof'):
                d['xs'] = sorted(d['xs'], key=lambda x: json.dumps(x, sort_keys=True))
            if d.get('t') == 'consts':
                d['vs'] = sorted(d['vs'], key=lambda x: json.dumps(x))
            return d
        if isinstance(s, list):
            return [norm(x) for x in s]
        return s
    return json.dumps(norm(a), sort_keys=True) == json.dumps(norm(b), sort_keys=True)


def replay(path):
    d = json.load(open(path))
    print(json.dumps(d['replay'])[:1500])
    return 0
