"""C16 — schema-printing contexts collect definitions independently of call order.
Inductive step with a SYMBOLIC PRE-STATE (jsdse/ctx_harness.mjs): the set of definitions a SchemaPrintingContext already holds is a vector of solver
Booleans constrained by the representation invariant (nothing in progress; every held definition equals the fresh one; the set is closed under $ref);
the real schemaWithContext() runs on it, every `name in collectedDefinitions` is a branch decided by z3 under the invariant, and on every path the
post-state must satisfy the invariant again, contain exactly pre + what the parser reaches, and the returned schema must equal the fresh context's.
The empty context satisfies the invariant, so the step covers call sequences of any length and order.  Sequences of two steps (same context, two
contexts with the same or another ref template) are explored as well, because state kept outside the context (on the runtype objects) is not
part of the symbolic pre-state."""
import os, sys, json, time, random, subprocess, tempfile, itertools, multiprocessing as mp
from lib.common import Report, Inconclusive, beffdrv, seed, VERIF
from checks import valcheck, c13, c01

PID = 'C16'
TEMPLATES = [{'refPathTemplate': '#/$defs/{name}', 'definitionContainerKey': '$defs'},
             {'refPathTemplate': '#/components/schemas/{name}', 'definitionContainerKey': None}]

# hand-written modules: several parsers over shared / recursive / discriminated / unprintable named types
MODULES = [
    ('shared', """
type Leaf = { v: string };
type Mid2 = { l: Leaf[] };
type Mid = { l: Leaf; m?: Mid2 };
type A = { mid: Mid };
type B = { leaf: Leaf; mid2: Mid2 };
type C = Leaf | null;
""", ['A', 'B', 'C', 'Mid', 'Leaf']),
    ('recursive', """
type Tree = { value: number; kids: Tree[] };
type Ev = { next?: Od };
type Od = { prev: Ev | null; t?: Tree };
type Forest = { trees: Tree[]; e: Ev };
type Wrap = { o: Od };
""", ['Tree', 'Ev', 'Od', 'Forest', 'Wrap']),
    ('discriminated', """
type Circle = { kind: "circle"; r: number };
type Square = { kind: "square"; s: number; inner?: Shape };
type Shape = Circle | Square;
type Inline = { t: "a"; x: string } | { t: "b"; y: Shape };
type Holder = { shapes: Shape[]; i: Inline };
type Other = { t: "a"; x: string } | { t: "b"; y: Circle };
""", ['Shape', 'Inline', 'Holder', 'Circle', 'Other']),
    ('unprintable', """
type Stamp = { at: Date };
type Sub = { x: string };
type Good = { n: number; s?: Sub };
type Bad = { sub: Sub; stamp: Stamp };
type Mixed = { sub: Sub; bad?: Stamp };
type Deep = { g: Good; big: { v: bigint } };
""", ['Good', 'Bad', 'Mixed', 'Sub', 'Deep']),
    ('algebra', """
type P = { x: number };
type Q = { y: P };
type PQ = P & Q;
type Tup = [P, Q, ...PQ[]];
type Rec = Record<string, Tup>;
type Gen<T> = { g: T; p: P };
type GP = Gen<Q>;
type Lits = "a" | "b" | 1;
type UsesLits = { l: Lits; r?: Rec };
""", ['PQ', 'Tup', 'Rec', 'GP', 'UsesLits']),
    ('hostile-names', """
type toString = { v: string };
type constructor = { t: toString; n?: constructor };
type valueOf = { tag: "a"; c: constructor } | { tag: "b"; s: toString };
type Holder = { a: toString; b: constructor };
type Other = { v: valueOf[] };
""", ['Holder', 'Other', 'toString', 'valueOf']),
    ('disc-twins', """
type U1 = { t: "a"; x: true } | { t: "b"; y: number };
type U2 = { t: "a"; x: "true" } | { t: "b"; y: number };
type H2 = { u: U2; w?: U1 };
""", ['U1', 'U2', 'H2']),
    ('mutual3', """
type X = { y?: Y; n: number };
type Y = { z: Z | null };
type Z = { x: X[]; w?: W };
type W = { tag: "w"; x?: X } | { tag: "v"; z?: Z };
type Top = { w: W };
""", ['X', 'Y', 'Z', 'W', 'Top']),
]


def compile_module(name, src, parsers):
    full = src + '\nparse.buildParsers<{' + ', '.join(f'{p}: {p}' for p in parsers) + '}>();\n'
    r = beffdrv('compile', {'files': {'entry.ts': full}}, timeout=120)
    if r.get('panic') or r.get('errors') or r.get('parse_error') or 'code' not in r:
        raise Inconclusive(f'fixture {name} does not compile: ' + json.dumps({k: r.get(k) for k in ('panic', 'errors', 'parse_error', 'emit_error', 'emit_panic')})[:300])
    return r['code']


def sequences(n, tier, rng):
    seqs = [{'steps': [[p, 0]], 'ctxTemplates': [0]} for p in range(n)] + [{'steps': [[p, 0]], 'ctxTemplates': [1]} for p in range(n)]
    pairs = list(itertools.product(range(n), repeat=2))
    for (p, q) in pairs:
        seqs.append({'steps': [[p, 0], [q, 0]], 'ctxTemplates': [0]})            # same context
        seqs.append({'steps': [[p, 0], [q, 1]], 'ctxTemplates': [0, 0]})         # two contexts, same template
        if tier != 'quick' or p == q or (p + 1) % n == q:
            seqs.append({'steps': [[p, 0], [q, 1]], 'ctxTemplates': [0, 1]})     # two contexts, different templates
    if tier != 'quick':
        for t in itertools.product(range(n), repeat=3):
            if len(set(t)) >= 2:
                seqs.append({'steps': [[t[0], 0], [t[1], 1], [t[2], 0]], 'ctxTemplates': [0, 0]})
                seqs.append({'steps': [[t[0], 0], [t[1], 0], [t[2], 0]], 'ctxTemplates': [0]})
    return seqs


def run_harness(job, rtdir, timeout=900):
    os.makedirs(valcheck.JOBS, exist_ok=True)
    fd, path = tempfile.mkstemp(suffix='.json', dir=valcheck.JOBS)
    with os.fdopen(fd, 'w') as fh:
        json.dump(job, fh)
    try:
        r = subprocess.run(['node', '--stack-size=4000', os.path.join(VERIF, 'jsdse', 'ctx_harness.mjs'), rtdir, path], stdout=subprocess.PIPE,
                           stderr=subprocess.PIPE, text=True, timeout=timeout, env=valcheck.ENV)
    except subprocess.TimeoutExpired:
        return {'harness_error': 'timeout'}
    finally:
        os.unlink(path)
    if r.returncode != 0:
        return {'harness_error': r.stderr[-1500:]}
    try:
        return json.loads(r.stdout)
    except Exception:
        return {'harness_error': 'bad output: ' + r.stdout[-500:]}


def _task(job):
    t0 = time.time()
    res = run_harness(job, valcheck.RTI, timeout=600 if job['tier'] == 'quick' else 3000)
    res['job'] = job['name']
    res['wall'] = round(time.time() - t0, 2)
    return res


def role(what, job, seq):
    import re
    w = re.sub(r'^step \d+ \([^)]*\): ', '', what)
    w = re.sub(r'^context \d+: ', '', w)
    if 'in progress' in w:
        cls = 'left-in-progress' + ('-after-throw' if 'threw' in w else '')
    elif w.startswith('returned schema'):
        cls = 'returned-schema-differs'
    elif 'differs from the fresh' in w or 'differs between fresh' in w:
        cls = 'definition-differs'
    elif 'does not resolve' in w:
        cls = 'dangling-ref'
    elif 'is not in the context afterwards' in w:
        cls = 'reachable-definition-missing'
    elif 'no fresh context produces' in w:
        cls = 'spurious-definition'
    elif 'removes the definition' in w:
        cls = 'definition-removed'
    elif w.startswith('throws') or w.startswith('returns'):
        cls = 'throws-differently'
    else:
        cls = valcheck.msg_class(w)[:40]
    shape = 'single' if len(seq['steps']) == 1 else ('same-context' if len(seq['ctxTemplates']) == 1 else 'two-contexts')
    return f'c16:{cls}:{job["kind"]}:{shape}'


def main(tier):
    rep = Report(PID, tier)
    c13.build_runtime()
    rng = random.Random(seed())
    jobs = []
    for name, src, parsers in MODULES:
        code = compile_module(name, src, parsers)
        ps, same = list(parsers), []
        if name in ('shared', 'discriminated'):
            # a second parser with the display name of the first one but the type of the last one
            same = [{'key': parsers[0] + '#2', 'of': parsers[-1], 'name': parsers[0]}]
            ps.append(parsers[0] + '#2')
        jobs.append({'name': name, 'kind': name, 'tier': tier, 'code': code, 'glue': valcheck.GLUE_IMPORTS, 'parsers': ps, 'sameName': same, 'templates': TEMPLATES,
                     'sequences': sequences(len(ps), tier, rng), 'finalExport': True, 'source': src, 'maxPaths': 200000})
    # generated programs (checks/c01.py) bundled three at a time: they share the named types of the generator
    progs = c01.programs(tier, rng, style=0)
    rng.shuffle(progs)
    nb = 8 if tier == 'quick' else 60
    for b in range(nb):
        grp = progs[3 * b: 3 * b + 3]
        if len(grp) < 2:
            break
        decls = []
        for t in grp:
            decls += t.decls
        names = [f'R{b}_{i}' for i in range(len(grp))]
        src = '\n'.join(dict.fromkeys(decls)) + '\n' + '\n'.join(f'type {n} = {t.ts};' for n, t in zip(names, grp))
        try:
            code = compile_module(f'gen{b}', src, names)
        except Inconclusive:
            continue
        jobs.append({'name': f'gen{b}', 'kind': 'generated', 'tier': tier, 'code': code, 'glue': valcheck.GLUE_IMPORTS, 'parsers': names, 'templates': TEMPLATES,
                     'sequences': sequences(len(names), tier, rng), 'finalExport': True, 'source': src, 'maxPaths': 200000})
    byname = {j['name']: j for j in jobs}
    agg = {'modules': len(jobs), 'sequences': 0, 'paths': 0, 'infeasible': 0, 'queries': 0, 'solver_s': 0.0, 'names': 0}
    with mp.Pool(min(16, os.cpu_count() or 4)) as pool:
        results = list(pool.imap_unordered(_task, jobs))
    samples = []
    for res in results:
        job = byname[res['job']]
        if 'harness_error' in res:
            rep.note_inconclusive(f'{job["name"]}: harness failed: {res["harness_error"][:400]}')
            continue
        agg['names'] += len(res['universe'][0])
        if len(samples) < 4:
            samples.append({'module': job['name'], 'parsers': job['parsers'], 'definition_names': res['universe'][0], 'unprintable_parsers': res['throws'][0]})
        last = None
        for r in res['results']:
            seq = r['seq']
            agg['sequences'] += 1
            agg['paths'] += r['paths']
            agg['infeasible'] += r['infeasible']
            last = r['stats']
            label = f'{job["name"]} {[job["parsers"][p] + "->ctx" + str(c) for p, c in seq["steps"]]} templates {seq["ctxTemplates"]}'
            if r.get('bound_hit'):
                rep.note_inconclusive(f'{label}: path bound hit')
            if r['unmodelled']:
                rep.note_inconclusive(f'{label}: unmodelled: {sorted(set(r["unmodelled"]))[:3]}')
            for e in r['errors'][:2]:
                rep.note_inconclusive(f'{label}: harness exception: {e["message"][:300]}')
            seen = set()
            for v in r['violations']:
                key = role(v['what'], job, seq)
                if key in seen:
                    continue
                seen.add(key)
                # the solver's model of the pre-state -> concrete contexts; replay on the type-stripped, un-instrumented runtime
                pre = []
                for ci, ti in enumerate(seq['ctxTemplates']):
                    U = res['universe'][ti]
                    pre.append([n for i, n in enumerate(U) if (v.get('model') or {}).get(f'bc{ci}_{i}')])
                rj = {k: job.get(k) for k in ('name', 'kind', 'tier', 'code', 'glue', 'parsers', 'sameName', 'templates', 'finalExport')}
                rj['concrete'] = {'seq': seq, 'pre': pre}
                rr = run_harness(rj, valcheck.RT, timeout=120)
                if not [x for x in rr.get('violations', []) if x['prop'] == PID]:
                    rep.note_inconclusive(f'{label}: violation "{v["what"][:120]}" did not reproduce on the stripped runtime with pre-state {pre}: {json.dumps(rr)[:200]}')
                    continue
                rep.violation(key, f'{label}, contexts initially holding {pre}: {v["what"]}', {'cmd': 'ctx', 'job': rj, 'source': job['source']})
        if last:
            agg['queries'] += last['queries']
            agg['solver_s'] += last['solver_ms'] / 1000.0
    coverage = {
        'programs': agg['modules'], 'sequences': agg['sequences'], 'paths': agg['paths'], 'infeasible_paths': agg['infeasible'], 'queries': agg['queries'], 'solver_s': round(agg['solver_s'], 2),
        'definition_names': agg['names'], 'samples': samples or [{'module': 'none'}],
        'functions_encoded': ['ParserFromRuntype.schemaWithContext', 'SchemaPrintingContext.{hasDefinition,isDefinitionInProgress,markDefinitionInProgress,storeDefinition,getRef,exportDefinitions}',
                              'BaseRefRuntype.schema', 'AnyOfDiscriminatedRuntype.{schema,getSchemaVariantRefs,ensureSchemaVariantRef,ensureContextualDefinition}',
                              'every *Runtype.schema reached from the compiled modules (instrumented packages/beff-client/src/codegen-v2.ts)'],
        'explanation': 'one Boolean per (context, definition name) = "already collected"; assumed: closure under $ref, held definitions equal the fresh ones, nothing in progress; '
                       'obligations per path: returned schema = fresh, invariant re-established, post = pre + reach(parser), every $ref resolves; histories of 1 and 2 '
                       '(thorough 3) calls over all parsers of a module and 1-2 contexts; counterexamples replayed on the stripped runtime with a concrete pre-state',
        'bounds': f'{agg["modules"]} modules with 2-5 parsers each, <= 12 definition names per module (all subsets that satisfy the invariant are covered by the solver), histories of <= {2 if tier == "quick" else 3} calls, 2 ref templates',
        'outside_claim': ['namedTypeSchemaOverrides', 'contexts whose pre-state violates the invariant (unreachable from the empty context unless a call threw)', 'key order of the exported object',
                          'modules other than the enumerated ones'],
    }
    return rep.finish('other', coverage, ['the invariant is inductive only if every public call re-establishes it (checked) and the empty context satisfies it (trivial)',
                                                     'jsdse engine (Proxy-backed symbolic record, forks decided by z3 4.8.12)', 'tsx strip/instrument preserve semantics (replay on the stripped runtime)'])


def replay(path):
    d = json.load(open(path))
    c13.build_runtime()
    r = run_harness(d['replay']['job'], valcheck.RT, timeout=120)
    print(json.dumps(r)[:2000])
    return 1 if [v for v in r.get('violations', []) if v['prop'] == PID] else 0
