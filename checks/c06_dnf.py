"""C06 layer 2: bdd_to_dnf / bdd_to_dnf_recursive / dnf_to_bdd executed from MIR in modular mode.
bdd_to_dnf_recursive: one unfolding, children opaque, recursive calls by contract
   ("appends conjunction groups whose disjunction is tt(child) & pos & !neg; leaves pos/neg as they were").
dnf_to_bdd: real loop over a DNF of bounded size with symbolic atoms; BDD operations by the layer-1 contracts."""
import time
import z3
from mirsym.interp import (Engine, Explorer, Adt, RcV, Cell, Ptr, Tup, VecV, choose, Abort, Unmodelled, BoundHit, Panic)
from mirsym.stdmodel import deref_all, vec_of
from checks.c06_bdd import OpaqueBdd, tt_of, atom_mask, spec_contract, from_node_contract, fn_name
from checks import c06_bdd

FULL = z3.BitVecVal(0xFFFF, 16)


class ConjGroup:
    """stands for the conjunctions a contracted recursive call appended to `acc`: only their joint table is known"""
    ty = 'Conjunction*'

    def __init__(s, tt):
        s.tt = tt


def table_of_atoms(vec, negate=False):
    t = FULL
    for a in vec.items:
        m = atom_mask(a)
        t = t & (~m if negate else m)
    return t


def table_of_conj(c):
    if isinstance(c, ConjGroup):
        return c.tt
    pos, neg = c.fields
    return table_of_atoms(pos) & table_of_atoms(neg, True)


def table_of_dnf(vec):
    t = z3.BitVecVal(0, 16)
    for c in vec.items:
        t = t | table_of_conj(c)
    return t


def mk_atom(st, name, kind='List'):
    a = z3.BitVec(name, 64)
    st.pc.append(z3.ULT(a, 4))
    return Adt('Atom', kind, [a])


def run_recursive(eng, npos, nneg, reach_twin=False, wrong=False):
    ix = eng.ix
    c06_bdd.ENG = eng
    target = ix.get(ix.free['bdd_to_dnf_recursive'])
    eng.contracts.clear()

    def rec_contract(st, argv):
        bddp, posp, negp, accp = argv
        b = deref_all(eng, st, bddp, maxhops=1) if False else None
        cell = bddp.cell if isinstance(bddp, Ptr) and not bddp.path else None
        v = eng.load(st, bddp)
        t = tt_of(v if not isinstance(v, Cell) else v.v) if not isinstance(v, OpaqueBdd) else v.tt
        pos = vec_of(eng, st, posp)
        neg = vec_of(eng, st, negp)
        acc = vec_of(eng, st, accp)
        g = t & table_of_atoms(pos) & table_of_atoms(neg, True)
        if wrong:
            g = t & table_of_atoms(pos)
        acc.items.append(ConjGroup(g))
        return Tup([])
    eng.contracts[target.name] = rec_contract
    ex = Explorer()

    def body(st):
        x = Cell(OpaqueBdd(st))
        tx = x.v.tt
        pos = VecV([mk_atom(st, f'p{i}') for i in range(npos)])
        neg = VecV([mk_atom(st, f'n{i}') for i in range(nneg)])
        pos0, neg0 = list(pos.items), list(neg.items)
        acc = VecV([])
        eng.call_fn(st, target, [Ptr(x), Ptr(Cell(pos)), Ptr(Cell(neg)), Ptr(Cell(acc))])
        expect = tx & table_of_atoms(VecV(pos0)) & table_of_atoms(VecV(neg0), True)
        got = table_of_dnf(acc)
        same = len(pos.items) == len(pos0) and len(neg.items) == len(neg0) and \
            all(a is b for a, b in zip(pos.items, pos0)) and all(a is b for a, b in zip(neg.items, neg0))
        return expect, got, same
    results = ex.run(body)
    return _decide(results, ex, reach_twin, 'bdd_to_dnf_recursive')


def _decide(results, ex, reach_twin, what):
    sat, nq, ts, samples = [], 0, 0.0, []
    for st, (expect, got, same) in results:
        if not same:
            sat.append((st, None, 'pos/neg stacks not restored'))
            continue
        s = z3.Solver()
        s.add(st.pc)
        s.add(z3.BoolVal(True) if reach_twin else expect != got)
        q0 = time.time()
        r = s.check()
        ts += time.time() - q0
        nq += 1
        if r == z3.unknown:
            raise Unmodelled('solver unknown')
        if r == z3.sat:
            sat.append((st, s.model(), 'table differs'))
        if not samples:
            samples.append({'fn': what, 'decisions': ''.join(map(str, st.decisions)), 'obligation': f'{z3.simplify(got)} == {z3.simplify(expect)}'[:240]})
    return {'paths': len(results), 'obligation_queries': nq, 'feasibility_queries': ex.queries, 'solver_s': ex.solver_time + ts,
            'sat': sat, 'samples': samples}


def run_wrapper(eng, reach_twin=False):
    """bdd_to_dnf: real body, recursive helper by contract"""
    ix = eng.ix
    c06_bdd.ENG = eng
    eng.contracts.clear()
    rec = ix.get(ix.free['bdd_to_dnf_recursive'])

    def rec_contract(st, argv):
        bddp, posp, negp, accp = argv
        v = eng.load(st, bddp)
        t = v.tt if isinstance(v, OpaqueBdd) else tt_of(v)
        pos, neg, acc = vec_of(eng, st, posp), vec_of(eng, st, negp), vec_of(eng, st, accp)
        acc.items.append(ConjGroup(t & table_of_atoms(pos) & table_of_atoms(neg, True)))
        return Tup([])
    eng.contracts[rec.name] = rec_contract
    target = ix.get(ix.free['bdd_to_dnf'])
    ex = Explorer()

    def body(st):
        x = RcV(Cell(OpaqueBdd(st)))
        res = eng.call_fn(st, target, [Ptr(Cell(x))])
        return x.cell.v.tt if isinstance(x.cell.v, OpaqueBdd) else tt_of(x), table_of_dnf(res), True
    return _decide(ex.run(body), ex, reach_twin, 'bdd_to_dnf')


def run_dnf_to_bdd(eng, shape, reach_twin=False, wrong=None):
    """shape: list of (npos, nneg) per conjunction"""
    ix = eng.ix
    c06_bdd.ENG = eng
    eng.contracts.clear()
    for o in ('union', 'intersect', 'diff', 'complement'):
        eng.contracts[fn_name(ix, o)] = spec_contract(o)
    eng.contracts[fn_name(ix, 'from_node')] = from_node_contract
    if wrong:
        eng.contracts[fn_name(ix, wrong[0])] = spec_contract(wrong[1])
    target = ix.get(ix.free['dnf_to_bdd'])
    ex = Explorer()

    def body(st):
        conjs = []
        for ci, (np_, nn) in enumerate(shape):
            pos = VecV([mk_atom(st, f'c{ci}p{i}') for i in range(np_)])
            neg = VecV([mk_atom(st, f'c{ci}n{i}') for i in range(nn)])
            conjs.append(Adt('Conjunction', None, [pos, neg]))
        dnf = VecV(conjs)
        expect = table_of_dnf(dnf)
        res = eng.call_fn(st, target, [Ptr(Cell(dnf))])
        return expect, tt_of(res), True
    return _decide(ex.run(body), ex, reach_twin, 'dnf_to_bdd')
