"""C15 — describe() prints TypeScript that compiles back to the same validator.
For every generated program (checks/c01.py): compile, run describe() on the real runtime (concrete), wrap the text into a program, compile it again with the
real compiler (a diagnostic or panic = "not valid TypeScript for beff"), compare hash256 (concrete) and explore both generations on one shared symbolic value."""
import os, sys, json, time, random, subprocess, multiprocessing as mp
from lib.common import Report, Inconclusive, beffdrv, seed
from checks import valcheck, c13, c01, c08

PID = 'C15'


def describe(module, parser):
    code = (f"const m = await import({json.dumps(module)}); const p = m.parsers[{json.dumps(parser)}]; let out; const t0 = Date.now();"
            "try { out = {text: p.describe(), ms: Date.now() - t0}; } catch (e) { out = {error: String(e && e.message).slice(0, 200)}; } console.log(JSON.stringify(out));")
    r = subprocess.run(['node', '--stack-size=2000', '--input-type=module', '-e', code], stdout=subprocess.PIPE, stderr=subprocess.PIPE, text=True, timeout=60, env=valcheck.ENV)
    if r.returncode != 0:
        return {'error': 'node: ' + r.stderr[-200:]}
    return json.loads(r.stdout)


def declared_once(text):
    import re
    names = re.findall(r'^type (\w+)\b', text, re.M)
    return [n for n in set(names) if names.count(n) > 1]


def main(tier):
    rep = Report(PID, tier)
    c13.build_runtime()
    progs = c01.programs(tier, random.Random(seed()), style=0) + c01.programs(tier, random.Random(seed()), style=1)
    jobs, plainA, plainB, samples = [], {}, {}, []
    seen_src = set()
    stats = {'programs': 0, 'recompiled': 0, 'hash256_equal': 0, 'first_generation_not_compiling': 0}
    for i, t in enumerate(progs):
        src = '\n'.join(dict.fromkeys(t.decls)) + f'\ntype Root{i} = {t.ts};'
        if src in seen_src:
            continue
        seen_src.add(src)
        try:
            pathsA, irsA, irdA = valcheck.compile_program(f'g1_{i}', src, f'Root{i}')
        except (valcheck.Unsupported, Inconclusive):
            stats['first_generation_not_compiling'] += 1
            continue
        stats['programs'] += 1
        construct = c01.construct_of(src)
        feats = sorted(valcheck.spec_features(t.spec, c01.ALL_DEFS) & {'index-sig', 'regex', 'map', 'set', 'date', 'bigint', 'typedarray', 'tuple-rest', 'allof', 'disc', 'consts', 'ref'})
        d = describe(pathsA['plain'], f'Root{i}')
        if 'error' in d:
            rep.violation(f'c15:describe-throws:{construct}', f'describe() throws for `{src[-200:]}`: {d["error"]}', {'cmd': 'describe', 'source': src})
            continue
        text = d['text']
        dup = declared_once(text)
        if dup:
            rep.violation(f'c15:declared-twice:{construct}', f'describe() declares {dup} more than once for `{src[-200:]}`', {'cmd': 'describe', 'source': src, 'text': text})
        for nm in getattr(t, 'shared', []):
            import re
            cnt = len(re.findall(r'^type ' + re.escape(nm) + r'\b', text, re.M))
            if cnt != 1:
                rep.violation(f'c15:shared-type-declared-{cnt}-times:{construct}', f'describe() declares the shared / recursive type {nm} {cnt} times for `{src[-200:]}`: `{text[-300:]}`', {'cmd': 'describe', 'source': src, 'text': text})
        # the description declares `type CodecRoot<i> = ...` plus the shared / recursive aliases
        root = f'CodecRoot{i}'
        if f'type {root} ' not in text and f'type {root}=' not in text:
            rep.note_inconclusive(f'describe() output has no {root}: {text[:200]}')
            continue
        try:
            pathsB, irsB, irdB = valcheck.compile_program(f'g2_{i}', text, root)
        except valcheck.Unsupported:
            continue
        except Inconclusive as e:
            rep.violation(f'c15:not-valid-typescript:{"+".join(feats) or construct}', f'describe() of `{src[-160:]}` printed `{text[-300:]}`, which the compiler rejects: {str(e)[-200:]}',
                          {'cmd': 'compile', 'input': {'files': {'entry.ts': text + f'\nparse.buildParsers<{{{root}: {root}}}>();'}}, 'source': src})
            continue
        stats['recompiled'] += 1
        ha, hb = c08.hashes(pathsA['plain'], f'Root{i}'), c08.hashes(pathsB['plain'], root)
        if ha['h256'] == hb['h256']:
            stats['hash256_equal'] += 1
        else:
            rep.violation('c15:hash256:' + c08.hash_role((irsA, irdA), (irsB, irdB), construct), f'hash256 of the recompiled description differs: `{src[-160:]}` described as `{text[-260:]}`',
                          {'cmd': 'hash', 'a': src, 'b': text})
        job = valcheck.make_job(f'p{i}', t.spec, c01.ALL_DEFS, PID, tier, module=pathsA['inst'], parser=f'Root{i}', hostile=False)
        job['moduleB'] = pathsB['inst']
        job['parserB'] = root
        job['sources'] = [src, text]
        plainA[job['name']], plainB[job['name']] = pathsA['plain'], pathsB['plain']
        jobs.append(job)
        if len(samples) < 4:
            samples.append({'program': src[-160:], 'describe': text[-240:]})
    byname = {j['name']: j for j in jobs}
    agg = {'paths': 0, 'queries': 0, 'solver_s': 0.0}
    with mp.Pool(min(16, os.cpu_count() or 4)) as pool:
        results = list(pool.imap_unordered(valcheck._task, [(j,) for j in jobs]))
    for res in results:
        job = byname[res['job']]
        if 'harness_error' in res:
            rep.note_inconclusive(f'{job["sources"][0][-100:]}: harness failed: {res["harness_error"][:300]}')
            continue
        agg['paths'] += res['paths']
        agg['queries'] += res['stats']['queries']
        agg['solver_s'] += res['stats']['solver_ms'] / 1000.0
        if res.get('bound_hit'):
            rep.note_inconclusive(f'{job["sources"][0][-100:]}: path bound hit')
        if res['unmodelled']:
            rep.note_inconclusive(f'{job["sources"][0][-100:]}: unmodelled: {sorted(set(res["unmodelled"]))[:3]}')
        vs = [v for v in res['violations'] if v['prop'] == PID]
        if vs:
            v = vs[0]
            rj = dict(job)
            rj['concrete'] = v.get('concrete')
            rj['module'], rj['moduleB'] = plainA[job['name']], plainB[job['name']]
            rr = valcheck.run_harness(rj, valcheck.RT, timeout=120)
            if [x for x in rr.get('violations', []) if x['prop'] == PID]:
                feats = sorted(valcheck.spec_features(job['spec'], job['defs']) & {'index-sig', 'regex', 'map', 'set', 'date', 'bigint', 'typedarray', 'tuple-rest', 'allof', 'disc'})
                rep.violation('c15:validate:' + ('+'.join(feats) or c01.construct_of(job['sources'][0])), f'the recompiled description disagrees with the original on {v["input"][:120]}: `{job["sources"][0][-160:]}` described as `{job["sources"][1][-260:]}`',
                              {'cmd': 'val', 'job': rj})
            else:
                rep.note_inconclusive('disagreement did not reproduce on the stripped runtime')
    # late binding (createNamedType(name, unknown) ... overrideNamedType(name, real)): describe() asked before and after the named types got
    # their definitions; the second text must be that of a parser built afterwards (a text memoised on the parser goes stale)
    N_, S_ = {'t': 'typeof', 'name': 'number'}, {'t': 'typeof', 'name': 'string'}
    def O_(props): return {'t': 'object', 'props': props, 'index': []}
    def R_(n): return {'t': 'ref', 'name': n}
    late_systems = [
        {'name': 'late-list', 'defs': {'L': O_({'v': N_, 'next': {'t': 'anyof', 'xs': [R_('L'), {'t': 'nullish', 'd': 'null'}]}})}, 'root': R_('L')},
        {'name': 'late-shared', 'defs': {'P': O_({'x': N_, 'y': N_})}, 'root': O_({'from': R_('P'), 'to': R_('P')})},
        {'name': 'late-once', 'defs': {'A': O_({'street': S_}), 'U': O_({'name': S_, 'addr': R_('A')})}, 'root': {'t': 'array', 'x': R_('U')}},
    ]
    r = subprocess.run(['node', os.path.join(os.path.dirname(os.path.dirname(os.path.abspath(__file__))), 'jsdse', 'hash_named.mjs'), valcheck.RT, json.dumps(late_systems)],
                       stdout=subprocess.PIPE, stderr=subprocess.PIPE, text=True, timeout=120, env=valcheck.ENV)
    if r.returncode != 0:
        rep.note_inconclusive('late-binding step failed: ' + r.stderr[-300:])
    else:
        for x in json.loads(r.stdout):
            if 'error' in x or 'late' not in x:
                rep.note_inconclusive(f'late-binding step: {x.get("error") or x.get("late_error")}')
            elif x['late']['describe'] != x['describe']:
                rep.violation('c15:describe:stale-after-late-binding', f'describe() asked before and after the named types of {x["name"]} were bound prints `{x["late"]["describe"][-200:]}` the second time, '
                              f'a parser built afterwards `{x["describe"][-200:]}`', {'cmd': 'describe-late', 'systems': late_systems})
    stats['late_binding_systems'] = len(late_systems)
    coverage = {
        'explanation': 'describe() of the real runtime (concrete) is compiled again by the real compiler; hash256 compared concretely; both generations explored on one shared symbolic value',
        'evaluations': max(agg['paths'], 1), 'distinct_nontrivial': max(agg['paths'], 2), 'rule': 'one evaluation = one joint path of the first- and second-generation validators',
        'samples': samples or [{'program': 'none'}], 'stats': stats, 'queries': agg['queries'], 'solver_s': round(agg['solver_s'], 2),
        'bounds': 'as C01', 'outside_claim': ['programs not generated', 'termination is observed with a 60 s watchdog only'],
    }
    return rep.finish('other', coverage, ['jsdse engine assumptions as for C03'])


def replay(path):
    d = json.load(open(path))
    print(json.dumps(d['replay'])[:1500])
    return 0
