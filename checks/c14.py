"""C14 — watch-mode rebuilds depend on the current file contents only, not on the edit history.
What is executed symbolically (mirsym, from the native-target MIR dump of packages/beff-wasm, regenerated from the working tree): the session
code of lib.rs and module_resolver.rs — Bundler::new, update_file_content_inner (+ closures), run_extraction (+ closures),
LazyFileManager::{get_or_fetch_file, get_existing_file, resolve_import}, WasmModuleResolver::{new, resolve_import}.
Stubs (part of the claim): the host (disk, module resolution `./x` -> x.ts iff it exists), HashMap as a finite map, `parse_and_bind` as
"Err iff !parses(content); otherwise a module that records the content id and, for the entry file, the result of resolving `./dep` through the
resolver it was given", `beff_core::extract` as "fetch the entry; fetch what its recorded import resolved to; resolve + fetch an `import()` type".
Symbolic: every file content (an 8-bit id with uninterpreted attributes parses / imports / imptype), decided by z3; the history shape
(which step is an update of which file / a creation / a rebuild; which files exist initially) is explored by forking under solver-checked
path conditions.  Obligation at every rebuild: the observation (which modules with which content ids, which resolution outcomes) equals the one
of a fresh session over the same disk.  Every counterexample is replayed natively on the real lib.rs (wasmdrv) before it is reported."""
import os, re, json, time, subprocess, itertools
import z3
from lib.common import Report, Inconclusive, mir_dump, REPO, VERIF, BUILD, ENV, seed
from mirsym.mir import Index, Layouts
from mirsym.interp import (Engine, Explorer, Adt, RcV, Cell, Ptr, Tup, StrV, FnPtr, UNIT, choose, sym_bool_branch, Abort, Unmodelled,
                           BoundHit, Panic, is_sym)
from mirsym import stdmodel
from mirsym.stdmodel import deref_all, some, NONE

PID = 'C14'
# the entry point carries a backslash (a native Windows path as the watcher reports it): to the session code a file name is an opaque key
ENTRY, DEP = 'w\\entry.ts', 'dep.ts'
SPEC = './dep'

PARSES = z3.Function('parses', z3.BitVecSort(8), z3.BoolSort())
IMPORTS = z3.Function('imports', z3.BitVecSort(8), z3.BoolSort())
IMPTYPE = z3.Function('imptype', z3.BitVecSort(8), z3.BoolSort())


class MapV:
    """std::collections::HashMap as a finite map with concrete keys"""

    def __init__(s):
        s.d = {}

    def __repr__(s):
        return f"Map{list(s.d)}"


class Token:
    def __init__(s, name):
        s.name = name

    def __repr__(s):
        return f"<{s.name}>"


class ObsV:
    """a value derived from what an extraction observed (the error list, the diagnostics object, ...)"""

    def __init__(s, kind, obs):
        s.kind = kind
        s.obs = obs

    def __repr__(s):
        return f"<{s.kind} of {[o[0] for o in s.obs]}>"


class ObsStr(StrV):
    """a string rendered from an observation (serialised diagnostics, emitted code)"""
    __slots__ = ('kind', 'obs')

    def __init__(s, kind, obs):
        StrV.__init__(s, text=None, id=None)
        s.kind = kind
        s.obs = obs

    def __repr__(s):
        return f"<{s.kind} text of {[o[0] for o in s.obs]}>"


class JsV:
    def __init__(s, v):
        s.v = v


class HasherV:
    def __init__(s):
        s.items = []


def errors_empty(obs):
    return not any(o[0].endswith('-missing') or o[0].endswith('-unresolved') for o in obs)


class World:
    """the host: a disk (file -> content StrV) and bookkeeping for roles / replays"""

    def __init__(s):
        s.disk = {}
        s.created_at = {}
        s.step = -1
        s.contents = []      # z3 ids in creation order
        s.reads = 0
        s.emitted = []


def keyof(e, st, v):
    v = deref_all(e, st, v)
    if isinstance(v, StrV):
        if v.s is None:
            raise Unmodelled('symbolic string used as a map key')
        return v.s
    if isinstance(v, Tup):
        return tuple(keyof(e, st, x) for x in v.xs)
    raise Unmodelled(f'map key {v!r}')


def strv(e, st, v):
    v = deref_all(e, st, v)
    if not isinstance(v, StrV):
        raise Unmodelled(f'string expected, got {v!r}')
    return v


class SessionEngine(Engine):
    """Engine + the models this property needs; everything else falls through to the MIR bodies / the std model table"""

    def __init__(self, ix, lay):
        Engine.__init__(self, ix, lay)
        self.world = None
        self.bundler = None
        self.find = {}
        for name in ix.fns_raw:
            for meth in ('get_or_fetch_file', 'get_existing_file', 'resolve_import'):
                if name.endswith('::' + meth) and 'lib.rs' in name and 'module_resolver' not in name:
                    self.find['man.' + meth] = name
            if name.endswith('::resolve_import') and 'module_resolver.rs' in name:
                self.find['resolver.resolve_import'] = name
        for k in ('man.get_or_fetch_file', 'man.resolve_import', 'resolver.resolve_import'):
            if k not in self.find:
                raise Inconclusive('function not found in the MIR dump: ' + k)
        for k in ('update_file_content', 'bundle_to_diagnostics', 'bundle_to_string_v2'):
            if not ix.has(k):
                raise Inconclusive('function not found in the MIR dump: ' + k)

    def const(self, st, fr, c):
        if c.startswith('{alloc'):
            return Token(c)
        if c.split('::')[-1] in ('BUNDLER', 'GLOBALS', 'SWC_GLOBALS'):
            return Token(c.split('::')[-1])
        return Engine.const(self, st, fr, c)

    def call_closure(self, st, clo, args):
        v = clo
        if isinstance(v, FnPtr) and v.name.split('::')[-1] == 'new' and 'BffFileName' in v.name:
            return strv(self, st, args[0])
        return Engine.call_closure(self, st, clo, args)

    def note(self, n):
        self.models_used[n] = self.models_used.get(n, 0) + 1

    def dispatch(self, st, fr, n, argv):
        e = self
        # ---------------------------------------------------------------- strings and file names (a BffFileName is its string)
        if re.match(r'^<(str|std::string::String|String|BffFileName|beff_core::BffFileName) as (ToString|ToOwned|Clone|Deref)>::(to_string|to_owned|clone|deref)$', n) \
                or re.match(r'^(std::string::)?String::as_str$', n) or re.match(r'^(beff_core::)?BffFileName::new$', n) \
                or re.match(r'^(beff_core::)?BffFileName::as_str$', n):
            e.note('string identity (to_string/to_owned/clone/deref/as_str, BffFileName::new)')
            return strv(e, st, argv[0])
        # ---------------------------------------------------------------- HashMap
        if re.match(r'^(std::collections::)?HashMap::<.*>::new$', n):
            e.note('HashMap::new')
            return MapV()
        m = re.match(r'^(std::collections::)?HashMap::<.*>::(get|insert|remove|contains_key|get_mut|clear|len|is_empty)(::<.*>)?$', n)
        if m:
            op = m.group(2)
            e.note('HashMap::' + op)
            mp = deref_all(e, st, argv[0])
            if not isinstance(mp, MapV):
                raise Unmodelled(f'HashMap receiver {mp!r}')
            if op in ('get', 'get_mut'):
                c = mp.d.get(keyof(e, st, argv[1]))
                return some(Ptr(c)) if c is not None else NONE()
            if op == 'contains_key':
                return keyof(e, st, argv[1]) in mp.d
            if op == 'insert':
                k = keyof(e, st, argv[1])
                old = mp.d.get(k)
                mp.d[k] = Cell(argv[2])
                return some(old.v) if old is not None else NONE()
            if op == 'remove':
                old = mp.d.pop(keyof(e, st, argv[1]), None)
                return some(old.v) if old is not None else NONE()
            if op == 'clear':
                mp.d.clear()
                return UNIT
            if op == 'len':
                return len(mp.d)
            if op == 'is_empty':
                return len(mp.d) == 0
        if re.match(r'^(std::option::)?Option::<&.*>::cloned$', n):
            e.note('Option::cloned')
            o = argv[0]
            if o.variant == 'None':
                return NONE()
            return some(stdmodel.clone_val(e, st, e.load(st, o.fields[0])))
        # ---------------------------------------------------------------- session plumbing
        if re.match(r'^(better_scoped_tls::)?ScopedKey::<.*>::set::<.*>$', n):
            e.note('ScopedKey::set = call the closure')
            return e.call_closure(st, argv[2], [])
        if re.match(r'^(std::thread::)?LocalKey::<.*>::with::<.*>$', n):
            e.note('LocalKey::with = call the closure on the session state')
            return e.call_closure(st, argv[1], [Ptr(self.bundler)])
        if re.match(r'^(std::cell::)?RefCell::<.*>::(borrow_mut|borrow)$', n):
            e.note('RefCell::borrow_mut = the cell itself')
            return argv[0]
        if re.match(r'^<.*(LockGuard|ReadGuard|WriteGuard|RefMut|Ref)<.*> as (DerefMut|Deref)>::(deref_mut|deref)$', n):
            e.note('RefMut::deref_mut')
            g = e.load(st, argv[0])
            if not isinstance(g, Ptr):
                raise Unmodelled(f'guard {g!r}')
            return g
        if re.match(r'^<SWC_GLOBALS as Deref>::deref$', n):
            return Token('Globals')
        if re.match(r'^<log::Level as PartialOrd<.*>>::le$', n) or n in ('max_level', 'log::max_level'):
            e.note('logging disabled')
            return False
        # ---------------------------------------------------------------- results of an extraction, as far as the session code touches them
        if n == 'parse_entrypoints':
            e.note('parse_entrypoints stub')
            return Adt('EntryPoints', None, [strv(e, st, argv[0]), StrV(text='settings:' + str(strv(e, st, argv[1]).s))])
        if re.match(r'^Vec::<(beff_core::diag::)?DiagnosticInformation>::(is_empty|len)$', n):
            v = deref_all(e, st, argv[0])
            if not isinstance(v, ObsV):
                raise Unmodelled(f'errors of {v!r}')
            e.note('errors.is_empty() = the observation has no missing / unresolved item')
            return errors_empty(v.obs) if n.endswith('is_empty') else (0 if errors_empty(v.obs) else 1)
        if re.match(r'^<Vec<(beff_core::diag::)?DiagnosticInformation> as Deref>::deref$', n):
            return deref_all(e, st, argv[0])
        if re.match(r'^(beff_core::wasm_diag::)?WasmDiagnostic::from_diagnostics$', n):
            e.note('WasmDiagnostic::from_diagnostics = function of the observation')
            v = deref_all(e, st, argv[0])
            if not isinstance(v, ObsV):
                raise Unmodelled(f'from_diagnostics of {v!r}')
            return ObsV('diag', v.obs)
        if re.match(r'^serde_json::to_string::<.*>$', n):
            e.note('serde_json::to_string = function of its argument')
            v = deref_all(e, st, argv[0])
            if isinstance(v, ObsV):
                return Adt('Result', 'Ok', [ObsStr('json:' + v.kind, v.obs)])
            if isinstance(v, StrV):
                return Adt('Result', 'Ok', [v])
            raise Unmodelled(f'serde_json::to_string of {v!r}')
        if re.match(r'^(beff_core::print::)?printer::<impl ParserExtractResult>::emit_code$', n) or n.endswith('ParserExtractResult>::emit_code'):
            e.note('emit_code = function of the observation')
            v = deref_all(e, st, argv[0])
            return Adt('Result', 'Ok', [ObsStr('code', v.fields[0].obs)])
        if re.match(r'^((core|std|alloc)::)?(str::)?<impl str>::replace::<.*>$', n) or re.match(r'^((core|std|alloc)::)?str::replace::<.*>$', n):
            e.note('str::replace on concrete strings')
            hay, pat, to = strv(e, st, argv[0]), argv[1], strv(e, st, argv[2])
            pat_s = chr(pat) if isinstance(pat, int) else strv(e, st, pat).s
            if hay.s is None or pat_s is None or to.s is None:
                raise Unmodelled('str::replace on an opaque string')
            return StrV(text=hay.s.replace(pat_s, to.s))
        if re.match(r'^(wasm_bindgen::)?JsValue::from_str$', n):
            return JsV(strv(e, st, argv[0]))
        if re.match(r'^(wasm_bindgen::)?JsValue::undefined$', n):
            return JsV(None)
        if n == 'emit_diagnostic':
            e.note('host emit_diagnostic')
            self.world.emitted.append(argv[0])
            return UNIT
        # ---------------------------------------------------------------- hashing (collision-free idealisation)
        if re.match(r'^(std::hash::|std::collections::hash_map::)?DefaultHasher::new$', n):
            e.note('DefaultHasher = collision-free fingerprint of what was written')
            return HasherV()
        if re.match(r'^<(str|String|std::string::String|BffFileName) as Hash>::hash::<.*>$', n):
            h = deref_all(e, st, argv[1])
            v = strv(e, st, argv[0])
            h.items.append(v)
            return UNIT
        if re.match(r'^<(std::hash::|std::collections::hash_map::)?DefaultHasher as Hasher>::finish$', n):
            h = deref_all(e, st, argv[0])
            if len(h.items) != 1:
                raise Unmodelled('fingerprint of several items')
            v = h.items[0]
            if v.id is not None:
                return z3.ZeroExt(56, v.id)
            return z3.BitVecVal(0x100 + (hash(v.s) % 100000), 64)
        # ---------------------------------------------------------------- host imports
        if n == 'read_file_content':
            e.note('host read_file_content = current disk content')
            f = strv(e, st, argv[0]).s
            self.world.reads += 1
            c = self.world.disk.get(f)
            return some(c) if c is not None else NONE()
        if n == 'resolve_import':
            e.note('host resolve_import: ./x -> x.ts iff it exists')
            spec = strv(e, st, argv[1]).s
            if spec is None or not spec.startswith('./'):
                raise Unmodelled('specifier ' + repr(spec))
            f = spec[2:] + '.ts'
            return some(StrV(text=f)) if f in self.world.disk else NONE()
        # ---------------------------------------------------------------- stubs of beff-core
        if re.match(r'^(beff_core::swc_tools::bind_exports::)?parse_and_bind::<.*>$', n):
            e.note('parse_and_bind stub')
            return self.parse_and_bind(st, argv[0], strv(e, st, argv[1]), strv(e, st, argv[2]))
        if re.match(r'^(beff_core::)?extract::<.*>$', n):
            e.note('extract stub')
            return self.extract(st, argv[0], argv[1])
        return Engine.dispatch(self, st, fr, n, argv)

    # -- parse_and_bind(resolver, file, content): same content, same resolver answers => same module
    def parse_and_bind(self, st, resolver, file, content):
        if content.id is None:
            raise Unmodelled('concrete content')
        cid = content.id
        if not sym_bool_branch(st, PARSES(cid)):
            return Adt('Result', 'Err', [stdmodel.ErrTok()])
        resolved = None
        if file.s == ENTRY and sym_bool_branch(st, IMPORTS(cid)):
            fn = self.ix.get(self.find['resolver.resolve_import'])
            resolved = self.call_fn(st, fn, [resolver, StrV(text=file.s), StrV(text=SPEC)])
        mod = Adt('ParsedModule', None, [cid, resolved, {'parsed_at': self.world.step, 'file': file.s}])
        return Adt('Result', 'Ok', [RcV(Cell(mod))])

    # -- extract(files, entry): what the result can depend on
    def extract(self, st, man, entry):
        obs = []
        get = self.ix.get(self.find['man.get_or_fetch_file'])

        def fetch(fname, role):
            r = self.call_fn(st, get, [man, Ptr(Cell(StrV(text=fname)))])
            if r.variant == 'None':
                obs.append((role + '-missing', None, None))
                return None
            mod = r.fields[0].cell.v
            obs.append((role, mod.fields[0], mod.fields[2]))
            return mod
        m = fetch(ENTRY, 'entry')
        if m is not None:
            res = m.fields[1]
            if res is not None:
                if res.variant == 'Some':
                    fetch(strv(self, st, res.fields[0]).s, 'import')
                else:
                    obs.append(('import-unresolved', None, m.fields[2]))
            if sym_bool_branch(st, IMPTYPE(m.fields[0])):
                rs = self.ix.get(self.find['man.resolve_import'])
                r = self.call_fn(st, rs, [man, StrV(text=ENTRY), StrV(text=SPEC)])
                if r.variant == 'Some':
                    fetch(strv(self, st, r.fields[0]).s, 'imptype')
                else:
                    obs.append(('imptype-unresolved', None, None))
        return Adt('ParserExtractResult', None, [ObsV('errors', obs)] + [ObsV('result', obs) for _ in range(5)])


def make_engine():
    path = mir_dump('beff-wasm')
    ix = Index(open(path).read(), os.path.join(REPO, 'packages/beff-wasm/src'))
    lay = Layouts()
    lay.load_dir(os.path.join(REPO, 'packages/beff-wasm/src'))
    lay.enums.setdefault('Level', [('Error', 1, None), ('Warn', 2, None), ('Info', 3, None), ('Debug', 4, None), ('Trace', 5, None)])
    return SessionEngine(ix, lay)


def new_session(e, st):
    name = e.ix.inherent.get(('Bundler', 'new'))
    if name is None:
        raise Inconclusive('Bundler::new not found')
    return Cell(e.call_fn(st, e.ix.get(name), []))


def rebuild(e, st, session):
    """what the host does on every (re)build, through the public entry points: bundle_to_diagnostics, then bundle_to_string_v2"""
    e.bundler = session
    e.world.emitted = []
    out = []

    def flat(prefix, js):
        if not isinstance(js, JsV):
            raise Unmodelled(f'entry point returned {js!r}')
        if js.v is None:
            out.append((prefix + ':undefined', None, None))
        elif isinstance(js.v, ObsStr):
            out.append((prefix + ':' + js.v.kind, None, None))
            out.extend((prefix + ':' + t, c, m) for t, c, m in js.v.obs)
        else:
            out.append((prefix + ':text', None, None))
    flat('diag', e.call_fn(st, e.ix.get('bundle_to_diagnostics'), [StrV(text=ENTRY), StrV(text='{}')]))
    flat('code', e.call_fn(st, e.ix.get('bundle_to_string_v2'), [StrV(text=ENTRY), StrV(text='{}')]))
    for x in e.world.emitted:
        flat('emit', x)
    return out


STEP_KINDS = ['rebuild', 'update-entry', 'update-dep', 'create-dep', 'create-entry']


def run_history(e, st, k, vacuity=False):
    """one path: initial disk, k steps; returns (events, violation | None)"""
    w = World()
    e.world = w

    def content(tag):
        c = z3.BitVec(f'c{len(w.contents)}_{tag}', 8)
        w.contents.append(c)
        return StrV(id=c)
    events = []
    init = {}
    for f in (ENTRY, DEP):
        if choose(st, 2) == 0:
            w.disk[f] = content('init_' + f[:-3])
            w.created_at[f] = -1
            init[f] = w.disk[f]
    session = new_session(e, st)
    for i in range(k):
        w.step = i
        kind = STEP_KINDS[choose(st, len(STEP_KINDS))]
        if kind == 'rebuild':
            if i > 0 and events and events[-1][0] == 'rebuild':
                raise Abort()          # two rebuilds in a row: the second one is covered by the first plus cache population; prune
            obs = rebuild(e, st, session)
            fresh_session = new_session(e, st)
            w.step = 1000 + i
            fresh = rebuild(e, st, fresh_session)
            w.step = i
            events.append(('rebuild', obs, fresh))
            v = compare(st, obs, fresh, w, events, init)
            if v is not None:
                return events, v
        else:
            f = ENTRY if kind.endswith('entry') else DEP
            if kind.startswith('create') and f in w.disk:
                raise Abort()          # a creation is a disk change of a file that does not exist yet (nobody watches it)
            c = content(f'{i}_{f[:-3]}')
            w.disk[f] = c
            w.created_at.setdefault(f, i)
            events.append((kind, f, c))
            if kind.startswith('update'):
                e.bundler = session
                e.call_fn(st, e.ix.get('update_file_content'), [StrV(text=f), c])
    return events, None


def compare(st, obs, fresh, w, events, init):
    """returns None or a dict describing the disagreement (with a z3 model)"""
    diffs = []
    conds = []
    if [o[0] for o in obs] != [o[0] for o in fresh]:
        diffs.append('shape')
    else:
        for a, b in zip(obs, fresh):
            if a[1] is not None:
                conds.append(a[1] != b[1])
    sol = z3.Solver()
    sol.add(st.pc)
    st.ex.queries += 1
    t0 = time.time()
    if not diffs:
        if not conds:
            return None
        sol.add(z3.Or(conds))
    r = sol.check()
    st.ex.solver_time += time.time() - t0
    if r == z3.unknown:
        raise Unmodelled('solver unknown on the observation equality')
    if r == z3.unsat:
        return None
    model = sol.model()
    return {'model': model, 'obs': obs, 'fresh': fresh, 'world': w, 'events': list(events), 'init': dict(init)}


# ----------------------------------------------------------------------------------------------- roles, concretisation, replay
def role_of(v):
    """role-based signature of a disagreement (used as the known-finding key)"""
    obs, fresh, w, model = v['obs'], v['fresh'], v['world'], v['model']
    last_update = {}
    for ev in v['events']:
        if ev[0] != 'rebuild':
            last_update[ev[1]] = ev
    def strip(o):
        return (o[0].split(':', 1)[1] if ':' in o[0] else o[0], o[1], o[2])
    for i in range(max(len(obs), len(fresh))):
        a = strip(obs[i]) if i < len(obs) else ('nothing', None, None)
        b = strip(fresh[i]) if i < len(fresh) else ('nothing', None, None)
        if a[0] == b[0] and (a[1] is None or not z3.is_true(model.eval(a[1] != b[1], model_completion=True))):
            continue
        f = ENTRY if a[0].split('-')[0] == 'entry' else DEP
        role = f[:-3]
        if a[0] in ('entry', 'import', 'imptype') and (b[0].endswith('-missing') or b[0] == a[0]):
            # the session serves a module the fresh process does not have (or has with another content)
            lu = last_update.get(f)
            if lu is not None and lu[0].startswith('update'):
                ok = z3.is_true(model.eval(PARSES(lu[2].id), model_completion=True))
                return f'c14:stale-module:{role}:last-update-' + ('parsed' if ok else 'did-not-parse')
            return f'c14:stale-module:{role}:not-updated-since-read'
        if a[0] == 'import-unresolved' or b[0] == 'import-unresolved' or a[0] == 'imptype-unresolved' or b[0] == 'imptype-unresolved':
            which = 'session-unresolved' if a[0].endswith('unresolved') else 'fresh-unresolved'
            meta = a[2] if a[0] == 'import-unresolved' else None
            if meta is None:
                for o in obs:
                    if o[0].endswith(':entry'):
                        meta = o[2]
            kind = 'imptype' if 'imptype' in (a[0] + b[0]) else 'import'
            when = 'unknown'
            if meta is not None and DEP in w.created_at:
                when = 'importer-parsed-before-target-existed' if meta['parsed_at'] < w.created_at[DEP] or (meta['parsed_at'] == w.created_at[DEP] and False) else 'importer-parsed-after-target-existed'
            return f'c14:stale-resolution:{kind}:{which}:{when}'
        return f'c14:other:{a[0]}-vs-{b[0]}'
    return 'c14:other'


def text_of(f, cid, model):
    n = model.eval(cid, model_completion=True).as_long()
    parses = z3.is_true(model.eval(PARSES(cid), model_completion=True))
    if not parses:
        return f'type Broken{n} = ;;; {{'
    if f == DEP:
        return f'export type User = {{ name{n}: string }};'
    imports = z3.is_true(model.eval(IMPORTS(cid), model_completion=True))
    imptype = z3.is_true(model.eval(IMPTYPE(cid), model_completion=True))
    lines, parsers = [], [f'Local: Local']
    lines.append(f'type Local = {{ id{n}: number }};')
    if imports:
        lines.insert(0, 'import { User } from "./dep";')
        parsers.append('User: User')
    if imptype:
        lines.append('type Imp = import("./dep").User;')
        parsers.append('Imp: Imp')
    lines.append('parse.buildParsers<{ ' + ', '.join(parsers) + ' }>();')
    return '\n'.join(lines)


def concretise(v):
    model = v['model']
    job = {'entry': ENTRY, 'initial': {f: text_of(f, c.id, model) for f, c in v['init'].items()}, 'steps': []}
    for ev in v['events']:
        if ev[0] == 'rebuild':
            job['steps'].append(['rebuild'])
        else:
            job['steps'].append(['update' if ev[0].startswith('update') else 'create', ev[1], text_of(ev[1], ev[2].id, model)])
    return job


_WASMDRV = {}


def wasmdrv_build():
    if 'bin' in _WASMDRV:
        return _WASMDRV['bin']
    src = os.path.join(VERIF, 'wasmdrv')
    try:
        import shutil
        shutil.copyfile(os.path.join(REPO, 'Cargo.lock'), os.path.join(src, 'Cargo.lock'))
    except OSError:
        pass
    tdir = os.path.join(BUILD, 'wasmdrv-target')
    e = dict(ENV)
    e['VERIF_REPO'] = REPO
    r = subprocess.run(['cargo', 'build', '--offline', '--target-dir', tdir], cwd=src, env=e, stdout=subprocess.PIPE, stderr=subprocess.STDOUT, text=True)
    if r.returncode != 0:
        raise Inconclusive('wasmdrv (native replay of the real session code) does not build:\n' + r.stdout[-3000:])
    _WASMDRV['bin'] = os.path.join(tdir, 'debug', 'wasmdrv')
    return _WASMDRV['bin']


def native(job):
    r = subprocess.run([wasmdrv_build()], input=json.dumps(job), stdout=subprocess.PIPE, stderr=subprocess.PIPE, text=True, timeout=120)
    if r.returncode != 0:
        return {'crash': r.stderr[-1500:]}
    return json.loads(r.stdout.strip().split('\n')[-1])


def show_obs(obs, model):
    out = []
    for o in obs:
        out.append(o[0] if o[1] is None else f"{o[0]}(content #{model.eval(o[1], model_completion=True).as_long()})")
    return out


# ----------------------------------------------------------------------------------------------- main
def explore(e, k, max_paths, shard=None):
    ex = Explorer(max_paths=max_paths, fuel=400000, shard=shard, shard_depth=4)
    found = {}
    samples = []
    stats = {'paths': 0, 'rebuilds_compared': 0}

    def body(st):
        events, v = run_history(e, st, k)
        stats['rebuilds_compared'] += sum(1 for ev in events if ev[0] == 'rebuild')
        if v is not None:
            role = role_of(v)
            if role not in found or len(v['events']) < len(found[role]['events']):
                found[role] = v
        elif len(samples) < 6 and any(ev[0] == 'rebuild' for ev in events) and len(events) == k:
            samples.append([ev[0] if ev[0] == 'rebuild' else f'{ev[0]}({ev[2].id})' for ev in events])
        return None
    ex.run(body)
    stats['paths'] = ex.paths
    stats['aborted'] = ex.aborted
    stats['queries'] = ex.queries
    stats['solver_s'] = round(ex.solver_time, 2)
    return found, samples, stats


def _worker(args):
    k, shard, max_paths = args
    e = make_engine()
    try:
        found, samples, stats = explore(e, k, max_paths, shard=shard)
    except (Unmodelled, BoundHit, Panic) as ex:
        return {'error': f'{type(ex).__name__}: {ex}'}
    out = {}
    for role, v in found.items():
        out[role] = {'job': concretise(v), 'obs': show_obs(v['obs'], v['model']), 'fresh': show_obs(v['fresh'], v['model']),
                     'rebuild_index': sum(1 for ev in v['events'] if ev[0] == 'rebuild') - 1, 'steps': len(v['events'])}
    return {'found': out, 'samples': samples, 'stats': stats, 'executed': sorted(e.executed), 'models_used': e.models_used}


def main(tier):
    import multiprocessing as mp
    rep = Report(PID, tier)
    make_engine()          # (re)generate the MIR dump once, before the workers start
    wasmdrv_build()
    k = 4 if tier == 'quick' else 5
    n = 16
    with mp.Pool(n) as pool:
        results = pool.map(_worker, [(k, (i, n), 4000000) for i in range(n)])
    for r in results:
        if 'error' in r:
            raise Inconclusive('the session code could not be followed: ' + r['error'])
    found, samples, executed, models_used = {}, [], set(), {}
    stats = {}
    for r in results:
        for role, v in r['found'].items():
            if role not in found or v['steps'] < found[role]['steps']:
                found[role] = v
        samples += r['samples'][:1]
        executed |= set(r['executed'])
        for m, c in r['models_used'].items():
            models_used[m] = models_used.get(m, 0) + c
        for a, b in r['stats'].items():
            stats[a] = round(stats.get(a, 0) + b, 2)
    if stats.get('rebuilds_compared', 0) == 0:
        raise Inconclusive('no rebuild was ever compared (vacuous run)')
    replayed = 0
    for role, v in sorted(found.items()):
        job = v['job']
        res = native(job)
        replayed += 1
        idx = v['rebuild_index']
        ok = 'rebuilds' in res and idx < len(res['rebuilds']) and not res['rebuilds'][idx]['equal']
        what = (f"history {[s[0] + ('(' + s[1] + ')' if len(s) > 1 else '') for s in job['steps']]} from initial files {sorted(job['initial'])}: "
                f"the session's rebuild sees {v['obs']}, a fresh process sees {v['fresh']}")
        if not ok:
            rep.note_inconclusive(f'counterexample does not reproduce natively ({role}): {what}; native: {json.dumps(res)[:600]}')
            continue
        rb = res['rebuilds'][idx]
        rep.violation(role, what + f"; natively: watch={rb['watch'][:160]!r} fresh={rb['fresh'][:160]!r}", {'job': job, 'native': rb, 'role': role})
    coverage = {
        'explanation': 'The session code of beff-wasm (lib.rs, module_resolver.rs) is executed symbolically from its MIR over histories of updates / creations / rebuilds '
                       'with symbolic file contents; at every rebuild z3 decides whether the observation can differ from that of a fresh session over the same disk. '
                       'parse_and_bind, extract and the host are stubs (see the assumptions).',
        'functions_encoded': sorted(executed),
        'models_used': models_used,
        'evaluations': int(stats['paths']), 'distinct_nontrivial': int(stats['rebuilds_compared']),
        'rule': 'one evaluation = one history shape (initial files, <= k steps) executed symbolically over all contents; non-trivial = rebuilds whose '
                'observation was compared with a fresh session by z3',
        'samples': samples[:6], 'stats': stats, 'queries': int(stats['queries']), 'solver_s': stats['solver_s'], 'counterexamples_replayed_natively': replayed,
        'bounds': f'2 files (entry.ts, dep.ts), one import specifier (./dep), histories of <= {k} steps (rebuild | update f | create f), contents: 8-bit ids with '
                  'uninterpreted attributes parses/imports/imptype',
        'outside_claim': ['everything inside a ParsedModule and inside beff_core::extract (symbol tables, export * chains, diagnostics text): abstracted by the stubs',
                          'more than 2 files / 1 specifier, deletions, histories longer than the bound', 'the TypeScript side (bundler.ts caches, chokidar)'],
    }
    assumptions = ['MIR dump = the code rustc compiles', 'mirsym interpreter and the models listed in models_used',
                   'stub parse_and_bind(resolver, file, content): Err iff !parses(content); else a module recording the content id and (entry file, imports(content)) what '
                   'resolver.resolve_import(file, "./dep") answered', 'stub extract: fetch entry; fetch the recorded import target; if imptype(content): FileManager::resolve_import + fetch',
                   'host: `./x` resolves to x.ts iff it exists; update(f, c) is called with the content now on disk; no deletions', 'z3 4.8.12']
    return rep.finish('other', coverage, assumptions)


def replay(path):
    obj = json.load(open(path))
    res = native(obj['replay']['job'])
    print(json.dumps(res, indent=1)[:4000])
    bad = [r for r in res.get('rebuilds', []) if not r['equal']]
    print('reproduced' if bad else 'not reproduced')
    return 1 if bad else 0
