"""C01 — generated validators accept exactly the values of the declared TypeScript type.
Programs are generated together with their EXPECTED meaning (a validator description derived by this file's own reading of
the TypeScript constructs, never from beff's IR); each is compiled by the real compiler and the emitted module is explored
with the jsdse engine on a symbolic value: on every path validate(v) must equal the reference membership of v."""
import os, sys, json, time, random, itertools, multiprocessing as mp
from lib.common import Report, Inconclusive, beffdrv, seed
from checks import valcheck, c13
from checks.valcheck import S, N, B, NULL, C, O, OPT

PID = 'C01'
UNDEF = {'t': 'nullish', 'd': 'undefined'}


class T:
    """a TypeScript type expression (text), the declarations it needs, and its expected meaning"""

    def __init__(self, ts, spec, decls=(), props=None, lits=None):
        self.ts = ts
        self.spec = spec
        self.decls = list(decls)
        self.props = props      # for object types: {key: (T, optional)} so that utility types can be computed here
        self.lits = lits        # for unions of literals: list of python values


STRING, NUMBER, BOOLEAN = T('string', S), T('number', N), T('boolean', B)
TNULL, TUNDEF = T('null', NULL), T('undefined', UNDEF)
DATE, BIGINT = T('Date', {'t': 'date'}), T('bigint', {'t': 'bigint'})
U8 = T('Uint8Array', {'t': 'typedarray', 'name': 'Uint8Array'})
ANY, UNKNOWN = T('any', {'t': 'any'}), T('unknown', {'t': 'any'})


# STYLE selects between equivalent spellings of the same program (used by C08: meaning-preserving rewrites).  The EXPECTED meaning never
# depends on it.  0 = plain; 1 = rewritten (reordered members/properties/declarations, extra aliases and generic wrappers, parentheses,
# readonly, comments/JSDoc, interface <-> object type, T[] <-> Array<T>)
STYLE = {'v': 0, 'n': 0}
ALL_DEFS = {}     # expected meaning of every named recursive type generated so far (names are unique)


def _rw():
    return STYLE['v'] == 1


def _wrap(ts_text, decls):
    """style 1: sometimes hide a sub-expression behind an alias or an identity generic"""
    if not _rw():
        return ts_text, decls
    STYLE['n'] += 1
    k = STYLE['n'] % 4
    if k == 0:
        name = f'W{STYLE["n"]}'
        return name, decls + [f'/** alias introduced by a rewrite */\ntype {name} = {ts_text};']
    if k == 1:
        name = f'Id{STYLE["n"]}'
        return f'{name}<{ts_text}>', decls + [f'type {name}<X> = X;']
    if k == 2:
        return f'(({ts_text}))', decls
    return ts_text, decls


def lit(v):
    return T(json.dumps(v), C(v), lits=[v])


def union(*ts):
    if _rw():
        ts = tuple(reversed(ts))
    lits = None
    if all(t.lits is not None for t in ts):
        lits = [x for t in ts for x in t.lits]
    if _rw():
        STYLE['n'] += 1
        parts = [(f'\n  /** member {i} */\n  ' if STYLE['n'] % 2 == 0 else '') + t.ts for i, t in enumerate(ts)]
        if len(parts) >= 3:
            # parentheses around a documented group of members: `A | /** doc */ (B | C)` is the same union
            parts = parts[:-2] + ['\n  /** a documented group */\n  (' + ' | '.join(parts[-2:]) + ')']
        body = '\n  | '.join(parts)
    else:
        body = ' | '.join(t.ts for t in ts)
    text, decls = _wrap('(' + body + ')', [d for t in ts for d in t.decls])
    return T(text, {'t': 'anyof', 'xs': [t.spec for t in ts]}, decls, lits=lits)


def arr(t):
    if _rw():
        STYLE['n'] += 1
        return T([f'ReadonlyArray<{t.ts}>', f'({t.ts})[]', f'readonly ({t.ts})[]'][STYLE['n'] % 3], {'t': 'array', 'x': t.spec}, t.decls)
    return T(f'Array<{t.ts}>', {'t': 'array', 'x': t.spec}, t.decls)


def tup(items, rest=None):
    parts = [t.ts for t in items] + ([f'...Array<{rest.ts}>'] if rest else [])
    return T('[' + ', '.join(parts) + ']', {'t': 'tuple', 'prefix': [t.spec for t in items], 'rest': rest.spec if rest else None},
             [d for t in items for d in t.decls] + (rest.decls if rest else []))


def obj(props, index=None):
    if _rw():
        parts = [f'\n  /** doc for {k} */\n  readonly {json.dumps(k)}{"?" if opt else ""}: {t.ts}' for k, (t, opt) in reversed(list(props.items()))]
        if index is not None:
            parts.insert(0, f'[key: string]: {index.ts}')
    else:
        parts = [f'{json.dumps(k)}{"?" if opt else ""}: {t.ts}' for k, (t, opt) in props.items()]
        if index is not None:
            parts.append(f'[k: string]: {index.ts}')
    spec = O({k: (OPT(t.spec) if opt else t.spec) for k, (t, opt) in props.items()}, [{'key': S, 'value': index.spec}] if index is not None else [])
    return T('{ ' + '; '.join(parts) + ' }', spec, [d for t, _ in props.values() for d in t.decls] + (index.decls if index else []), props=dict(props) if index is None else None)


def inter(*ts):
    if _rw():
        ts = tuple(reversed(ts))
    return T('(' + ' & '.join(t.ts for t in ts) + ')', {'t': 'allof', 'xs': [t.spec for t in ts]}, [d for t in ts for d in t.decls])


_n = [0]


def fresh(prefix):
    _n[0] += 1
    return f'{prefix}{_n[0]}'


def alias(t, name=None):
    name = name or fresh('A')
    if _rw():
        name = name + '_renamed'
        if t.props is not None and t.ts.startswith('{') and (STYLE['n'] + len(name)) % 2 == 0:
            # object type alias <-> interface
            return T(name, t.spec, t.decls + [f'// rewritten as an interface\ninterface {name} {t.ts}'], props=t.props, lits=t.lits)
    return T(name, t.spec, t.decls + [f'type {name} = {t.ts};'], props=t.props, lits=t.lits)


def interface(props, extends=None):
    name = fresh('I')
    body = '; '.join(f'{k}{"?" if opt else ""}: {t.ts}' for k, (t, opt) in props.items())
    decls = [d for t, _ in props.values() for d in t.decls]
    allprops = dict(props)
    ext = ''
    if extends is not None:
        ext = f' extends {extends.ts}'
        decls = extends.decls + decls
        merged = dict(extends.props)
        merged.update(props)
        allprops = merged
    full = obj(allprops)
    if _rw() and extends is None:
        # interface <-> object type alias
        return T(name, full.spec, decls + [f'type {name} = {{ {body} }};'], props=allprops)
    return T(name, full.spec, decls + [f'interface {name}{ext} {{ {body} }}'], props=allprops)


def partial(t):
    return T(f'Partial<{t.ts}>', obj({k: (x, True) for k, (x, _) in t.props.items()}).spec, t.decls, props={k: (x, True) for k, (x, _) in t.props.items()})


def required(t):
    return T(f'Required<{t.ts}>', obj({k: (x, False) for k, (x, _) in t.props.items()}).spec, t.decls, props={k: (x, False) for k, (x, _) in t.props.items()})


def pick(t, keys):
    p = {k: v for k, v in t.props.items() if k in keys}
    return T(f'Pick<{t.ts}, {" | ".join(json.dumps(k) for k in keys)}>', obj(p).spec, t.decls, props=p)


def omit(t, keys):
    p = {k: v for k, v in t.props.items() if k not in keys}
    return T(f'Omit<{t.ts}, {" | ".join(json.dumps(k) for k in keys)}>', obj(p).spec, t.decls, props=p)


def record_lits(keys, v):
    p = {k: (v, False) for k in keys}
    return T(f'Record<{" | ".join(json.dumps(k) for k in keys)}, {v.ts}>', obj(p).spec, v.decls, props=p)


def record_string(v):
    return T(f'Record<string, {v.ts}>', O({}, [{'key': S, 'value': v.spec}]), v.decls)


def keyof(t):
    ks = sorted(t.props)
    return T(f'keyof {t.ts}', {'t': 'consts', 'vs': ks}, t.decls, lits=ks)


def access(t, key):
    x, opt = t.props[key]
    spec = {'t': 'anyof', 'xs': [x.spec, UNDEF]} if opt else x.spec
    return T(f'{t.ts}[{json.dumps(key)}]', spec, t.decls + x.decls)


def mapped_over_keys(keys, v, optional=False):
    p = {k: (v, optional) for k in keys}
    return T(f'{{ [K in {" | ".join(json.dumps(k) for k in keys)}]{"?" if optional else ""}: {v.ts} }}', obj(p).spec, v.decls, props=p)


def mapped_identity(t, optional=False):
    p = {k: (x, optional or o) for k, (x, o) in t.props.items()}
    return T(f'{{ [K in keyof {t.ts}]{"?" if optional else ""}: {t.ts}[K] }}', obj(p).spec, t.decls, props=p)


def exclude_lits(u, removed):
    keep = [x for x in u.lits if x not in removed]
    spec = {'t': 'consts', 'vs': keep} if keep else {'t': 'never'}
    return T(f'Exclude<{u.ts}, {" | ".join(json.dumps(x) for x in removed)}>', spec, u.decls, lits=keep)


def generic_box(arg):
    name = fresh('Box')
    return T(f'{name}<{arg.ts}>', obj({'v': (arg, False), 'w': (arr(arg), True)}).spec, arg.decls + [f'type {name}<T> = {{ v: T; w?: Array<T> }};'])


def generic_nested(a, b):
    bx, out = fresh('Bx'), fresh('Outer')
    inner = obj({'v': (b, False)})
    spec = obj({'a': (a, False), 'b': (inner, False)}).spec
    return T(f'{out}<{a.ts}>', spec, a.decls + b.decls + [f'type {bx}<T> = {{ v: T }};', f'type {out}<T> = {{ a: T; b: {bx}<{b.ts}> }};'])


def enum_str(vals):
    name = fresh('E')
    body = ', '.join(f'M{i} = {json.dumps(v)}' for i, v in enumerate(vals))
    return T(name, {'t': 'consts', 'vs': list(vals)}, [f'enum {name} {{ {body} }}'], lits=list(vals))


def const_typeof(values):
    name = fresh('c')
    body = ', '.join(f'{k}: {json.dumps(v)}' for k, v in values.items())
    spec = obj({k: (lit(v), False) for k, v in values.items()}).spec
    return T(f'typeof {name}', spec, [f'const {name} = {{ {body} }} as const;'])


def tpl(prefix, suffix=''):
    import re
    anchored = '^' + re.escape(prefix) + '[\\s\\S]*' + re.escape(suffix) + '$'
    return T('`' + prefix + '${string}' + suffix + '`', {'t': 'regex', 'src': anchored, 'anchored': anchored})


def tpl_lits(lits, suffix):
    import re
    anchored = '^(?:' + '|'.join(re.escape(x) for x in lits) + ')' + re.escape(suffix) + '$'
    return T('`${' + ' | '.join(json.dumps(x) for x in lits) + '}' + suffix + '`', {'t': 'regex', 'src': anchored, 'anchored': anchored})


def conditional(check, extends, yes, no, holds):
    chosen = yes if holds else no
    return T(f'({check.ts} extends {extends.ts} ? {yes.ts} : {no.ts})', chosen.spec, check.decls + extends.decls + yes.decls + no.decls)


def map_of(k, v):
    return T(f'Map<{k.ts}, {v.ts}>', {'t': 'map', 'k': k.spec, 'v': v.spec}, k.decls + v.decls)


def set_of(v):
    return T(f'Set<{v.ts}>', {'t': 'set', 'x': v.spec}, v.decls)


def recursive_tree():
    name = fresh('Tree')
    spec = {'t': 'ref', 'name': name}
    t = T(name, spec, [f'type {name} = {{ v: number; kids: Array<{name}>; parent?: {name} | null }};'])
    t.defs = {name: O({'v': N, 'kids': {'t': 'array', 'x': spec}, 'parent': OPT({'t': 'anyof', 'xs': [spec, NULL]})})}
    ALL_DEFS.update(t.defs)
    return t


def recursive_person_team():
    pn, tn = fresh('Person'), fresh('Team')
    pref = {'t': 'ref', 'name': pn}
    doc = '\n  /** documented */\n  ' if _rw() else ''
    t = T(tn, O({'owner': pref, 'members': {'t': 'array', 'x': pref}}),
          [f'type {pn} = {{ name: string; {doc}parent?: {pn} }};', f'type {tn} = {{ {doc}owner: {pn}; members: Array<{pn}> }};'])
    t.defs = {pn: O({'name': S, 'parent': OPT(pref)})}
    ALL_DEFS.update(t.defs)
    return t


def shared_leaf(direct=True):
    ln = fresh('Leaf')
    leaf = T(ln, O({'id': S, 'n': OPT(N)}), [f'type {ln} = {{ id: string; n?: number }};'])
    props = {'a': (arr(leaf), False), 'b': (arr(leaf), False)}
    if direct:
        props['c'] = (leaf, True)
    t = obj(props)
    t.shared = [ln + ('_renamed' if False else '')]
    return t


def recursive_forest():
    name = fresh('Node')
    spec = {'t': 'ref', 'name': name}
    t = T(f'Array<{name}>', {'t': 'array', 'x': spec}, [f'type {name} = {{ v: number; kids: Array<{name}> }};'])
    t.defs = {name: O({'v': N, 'kids': {'t': 'array', 'x': spec}})}
    t.shared = [name]
    ALL_DEFS.update(t.defs)
    return t


def recursive_via_alias():
    """a recursive type entered through an alias of it: `type Node = { next?: NodeAlias }; type NodeAlias = Node;` with the alias as root"""
    nn, an = fresh('Node'), fresh('NodeAlias')
    nref = {'t': 'ref', 'name': nn}
    t = T(an, nref, [f'type {nn} = {{ v: number; next?: {an} }};', f'type {an} = {nn};'])
    t.defs = {nn: O({'v': N, 'next': OPT(nref)})}
    ALL_DEFS.update(t.defs)
    return t


def recursive_sexpr():
    """recursion only through a tuple rest element: `type SExpr = string | [string, ...SExpr[]]`"""
    name = fresh('SExpr')
    spec = {'t': 'ref', 'name': name}
    t = T(name, spec, [f'type {name} = string | [string, ...Array<{name}>];'])
    t.defs = {name: {'t': 'anyof', 'xs': [S, {'t': 'tuple', 'prefix': [S], 'rest': spec}]}}
    ALL_DEFS.update(t.defs)
    return t


def shared_in_tuple():
    """a named type shared between the prefix and the rest of a tuple: `[Cell, ...Cell[]]`"""
    cn = fresh('Cell')
    cell = T(cn, O({'id': S, 'n': OPT(N)}), [f'type {cn} = {{ id: string; n?: number }};'])
    t = tup([cell], rest=cell)
    t.shared = [cn]
    return t


def programs(tier, rng, style=0):
    STYLE['v'] = style
    STYLE['n'] = 0
    _n[0] = 0
    leaves = [STRING, NUMBER, BOOLEAN, TNULL, lit(1), lit('a'), lit(True)]

    def leaf():
        return rng.choice(leaves)

    def rnd_obj(keys=('a', 'b', 'c')):
        p = {}
        for k in keys:
            if rng.random() < 0.8:
                p[k] = (rng.choice([leaf(), leaf(), arr(leaf()), union(leaf(), leaf())]), rng.random() < 0.35)
        if not p:
            p['a'] = (STRING, False)
        return obj(p)
    out = []
    n = 6 if tier == 'quick' else 40
    for _ in range(n):
        u = alias(rnd_obj())
        ks = sorted(u.props)
        some = rng.sample(ks, max(1, len(ks) - 1))
        out += [partial(u), required(u), pick(u, some), omit(u, some[:1]), keyof(u), access(u, ks[0]), mapped_identity(u), mapped_identity(u, True),
                inter(pick(u, some), omit(u, some)), inter(alias(obj({'a': (STRING, False), 'b': (NUMBER, False)})), alias(obj({'a': (STRING, True), 'c': (BOOLEAN, False)}))),
                interface({'z': (leaf(), False)}, extends=interface({'y': (leaf(), True)})), record_lits(['a', 'b'], leaf()), record_string(union(leaf(), leaf())),
                mapped_over_keys(['p', 'q'], leaf(), optional=rng.random() < 0.5), generic_box(leaf()), generic_nested(STRING, NUMBER), generic_nested(lit('a'), union(NUMBER, TNULL)),
                arr(u), tup([leaf(), u], rest=leaf() if rng.random() < 0.5 else None), union(u, arr(leaf()), leaf()),
                obj({'k': (lit('x'), False), 'v': (u, False)}), obj({'n': (u, True)}, index=None)]
    # a discriminated union whose variants are intersections of named types that re-declare a NON-literal property more narrowly
    wb = alias(obj({'t': (union(lit('a'), lit('b')), False), 'v': (union(NUMBER, STRING), False)}))
    wn, ws = alias(obj({'t': (lit('a'), False), 'v': (NUMBER, False)})), alias(obj({'t': (lit('b'), False), 'v': (STRING, False)}))
    out += [union(inter(wb, wn), inter(wb, ws)), union(inter(wn, wb), inter(ws, wb)),
            union(inter(wb, alias(obj({'t': (lit('a'), False), 'w': (arr(NUMBER), True)}))), inter(wb, alias(obj({'t': (lit('b'), False), 'v': (lit('x'), False)}))))]
    out += [inter(obj({'name': (STRING, False)}), alias(union(obj({'email': (STRING, False)}), obj({'phone': (NUMBER, False)})))),
            union(obj({'status': (lit('draft'), True), 'title': (STRING, False)}), obj({'status': (lit('published'), False), 'n': (NUMBER, False)}))]
    lu = alias(union(lit('a'), lit('b'), lit(1), lit(2)))
    out += [exclude_lits(lu, ['a']), exclude_lits(lu, ['a', 1]), exclude_lits(lu, ['a', 'b', 1, 2]), enum_str(['x', 'y']), enum_str(['only']), const_typeof({'a': 1, 'b': 'x'}),
            tpl('id_'), tpl('', '_end'), tpl('a', 'z'), tpl_lits(['x', 'y'], '_id'), tpl('a|b_'), tpl('x.y*', '+(z)'), tpl('[q]{1}^$', '?'), tpl_lits(['a|b', 'c'], '--'),
            union(obj({'kind': (lit('labels'), False)}, index=STRING), obj({'kind': (lit('c'), False), 'r': (NUMBER, False)})),
            union(obj({'kind': (lit('m'), False), 'n': (NUMBER, True)}, index=union(STRING, NUMBER)), obj({'kind': (lit('c'), False), 'r': (NUMBER, False)}), obj({'kind': (lit('d'), False)})),
            conditional(lit('a'), STRING, NUMBER, BOOLEAN, True), conditional(STRING, lit('a'), NUMBER, BOOLEAN, False), conditional(lit(1), union(lit(1), lit(2)), lit('y'), lit('n'), True),
            conditional(arr(NUMBER), arr(union(NUMBER, STRING)), lit('y'), lit('n'), True), conditional(obj({'a': (STRING, False)}), obj({'a': (STRING, True)}), lit('y'), lit('n'), True),
            DATE, BIGINT, U8, map_of(STRING, NUMBER), set_of(union(STRING, TNULL)), obj({'d': (DATE, False), 'b': (BIGINT, True)}), tup([U8, union(DATE, TNULL)]),
            union(TNULL, TUNDEF, STRING), obj({'x': (ANY, False), 'y': (UNKNOWN, True)}), arr(ANY), recursive_tree(),
            union(obj({'kind': (lit('a'), False), 'x': (NUMBER, False)}), obj({'kind': (lit('b'), False), 'y': (STRING, True)}), obj({'kind': (lit(''), False)})),
            union(obj({'t': (union(lit('p'), lit('q')), False), 'v': (NUMBER, False)}), obj({'t': (lit('r'), False)})),
            inter(alias(obj({'kind': (union(lit('a'), lit('b')), False), 'x': (STRING, False)})), alias(obj({'kind': (lit('a'), False)}))),
            inter(obj({'a': (STRING, False), 'b': (NUMBER, False)}), obj({'a': (STRING, True), 'c': (BOOLEAN, False)})),
            inter(obj({'a': (STRING, True), 'c': (BOOLEAN, False)}), obj({'a': (STRING, False), 'b': (NUMBER, False)})),
            inter(obj({'id': (STRING, False), 't': (STRING, False)}), obj({'id': (STRING, False), 'b': (NUMBER, True)})),
            union(inter(alias(obj({'kind': (union(lit('a'), lit('b')), False), 'x': (STRING, False)})), alias(obj({'kind': (lit('a'), False)}))), alias(obj({'kind': (lit('c'), False), 'y': (NUMBER, False)}))),
            union(inter(alias(obj({'kind': (lit('a'), False)})), alias(obj({'kind': (union(lit('a'), lit('b')), False), 'x': (STRING, False)}))), alias(obj({'kind': (lit('c'), False), 'y': (NUMBER, False)}))),
            obj({'p': (tup([NUMBER, NUMBER]), False), 'q': (tup([NUMBER, NUMBER, NUMBER]), False)}), obj({'p': (tup([STRING, NUMBER]), False), 'q': (tup([NUMBER, STRING]), True)}),
            tup([tup([lit(1), lit('a')]), tup([lit('a'), lit(1)])]), obj({'s': (union(lit('x'), lit('y'), lit('z')), False), 't': (union(lit('z'), lit('y')), True)}),
            obj({'a-b': (STRING, True), 'c d': (NUMBER, False), '1x': (BOOLEAN, True)}), obj({'a.b': (STRING, False)}, index=STRING),
            recursive_person_team(), shared_leaf(), shared_leaf(direct=False), recursive_forest(), recursive_via_alias(), recursive_sexpr(), shared_in_tuple(), arr(recursive_tree()), tup([recursive_tree(), recursive_tree()]),
            obj({'id': (NUMBER, True), 'tag': (lit('a'), True)}, index=ANY), obj({'id': (NUMBER, True)}, index=union(NUMBER, STRING)),
            tup([]), tup([STRING], rest=NUMBER), tup([], rest=BOOLEAN), obj({}), obj({}, index=NUMBER), obj({'a': (STRING, False)}, index=union(STRING, NUMBER))]
    return out


def main(tier):
    rep = Report(PID, tier)
    c13.build_runtime()
    rng = random.Random(seed())
    progs = programs(tier, rng)
    jobs = []
    plain = {}
    skipped = []
    samples = []
    for i, t in enumerate(progs):
        name = f'p{i}'
        src = '\n'.join(dict.fromkeys(t.decls)) + f'\ntype Root{i} = {t.ts};'
        try:
            paths, spec_ir, defs_ir = valcheck.compile_program(name, src, f'Root{i}')
        except valcheck.Unsupported as e:
            skipped.append((t.ts, 'IR: ' + str(e)))
            continue
        except Inconclusive as e:
            skipped.append((t.ts[:80], str(e)[:160]))
            continue
        defs = ALL_DEFS
        job = valcheck.make_job(name, t.spec, defs, PID, tier, module=paths['inst'], parser=f'Root{i}', hostile=('index-sig' in valcheck.spec_features(t.spec, defs)))
        job['expected'] = t.spec
        job['expectedDefs'] = defs
        job['source'] = src
        plain[name] = paths['plain']
        jobs.append(job)
        if len(samples) < 5:
            samples.append({'program': src[-200:], 'expected': json.dumps(t.spec)[:200]})
    byname = {j['name']: j for j in jobs}
    agg = {'jobs': len(jobs), 'paths': 0, 'refinements': 0, 'infeasible': 0, 'queries': 0, 'solver_s': 0.0, 'samples': samples, 'skipped': len(skipped)}
    with mp.Pool(min(16, os.cpu_count() or 4)) as pool:
        results = list(pool.imap_unordered(valcheck._task, [(j,) for j in jobs]))
    for res in results:
        job = byname[res['job']]
        if 'harness_error' in res:
            rep.note_inconclusive(f'{job["source"][-120:]}: harness failed: {res["harness_error"][:300]}')
            continue
        agg['paths'] += res['paths']
        agg['refinements'] += res['refinements']
        agg['infeasible'] += res['infeasible']
        agg['queries'] += res['stats']['queries']
        agg['solver_s'] += res['stats']['solver_ms'] / 1000.0
        if res.get('bound_hit'):
            rep.note_inconclusive(f'{job["source"][-120:]}: path bound hit after {res["paths"]} paths')
        if res['unmodelled']:
            rep.note_inconclusive(f'{job["source"][-120:]}: unmodelled on {len(res["unmodelled"])} paths: {sorted(set(res["unmodelled"]))[:3]}')
        for e in res['errors'][:2]:
            rep.note_inconclusive(f'{job["source"][-120:]}: harness exception: {e["message"][:300]}')
        feats = sorted(valcheck.spec_features(job['expected'], job['expectedDefs']))
        seen = set()
        for v in res['violations']:
            if v['prop'] != PID:
                continue
            cls = valcheck.msg_class(v['what'])
            if cls in seen:
                continue
            seen.add(cls)
            rj = dict(job)
            rj['concrete'] = v.get('concrete')
            rj['module'] = plain[job['name']]
            rr = valcheck.run_harness(rj, valcheck.RT, timeout=120)
            if not [x for x in rr.get('violations', []) if x['prop'] == PID and valcheck.msg_class(x['what']) == cls]:
                rep.note_inconclusive(f'{job["source"][-100:]}: violation did not reproduce on the stripped runtime; witness {json.dumps(v.get("concrete"))[:160]}')
                continue
            construct = construct_of(job['source'])
            key = f'c01:{"accepts" if "accepts" in v["what"][:20] else "rejects"}:{construct}:{"+".join(f for f in feats if f in ("regex", "allof", "disc", "index-sig", "tuple-closed", "tuple-rest", "map", "set", "date", "bigint", "typedarray", "consts"))}'
            rep.violation(key, f'program `{job["source"][-260:]}`: {v["what"]} for the value {v["input"][:120]} (witness {json.dumps(v.get("concrete"))[:160]})',
                          {'cmd': 'val', 'job': rj})
    agg['solver_s'] = round(agg['solver_s'], 2)
    if skipped and len(skipped) > len(progs) // 3:
        rep.note_inconclusive(f'{len(skipped)} of {len(progs)} generated programs did not compile: {skipped[:3]}')
    coverage = {
        'explanation': 'each generated program carries its expected meaning (computed by this check\'s own reading of the TypeScript constructs); the real compiler '
                       'emits the validator module, which runs against the instrumented real runtime on a symbolic value; on every path validate(v) is compared with the '
                       'reference membership (null == undefined, optional = absent or nullish, extra keys ignored)',
        'evaluations': agg['paths'], 'distinct_nontrivial': agg['paths'],
        'rule': 'one evaluation = one path of validate() of one compiled program on the symbolic value; distinct decision sequences',
        'samples': samples or [{'program': 'none'}],
        'programs': agg['jobs'], 'programs_not_compiling': [s[0] for s in skipped][:10], 'queries': agg['queries'], 'solver_s': agg['solver_s'], 'refinements': agg['refinements'],
        'constructs': ['Partial', 'Required', 'Pick', 'Omit', 'Record', 'keyof', 'indexed access', 'mapped types', 'conditional types', 'Exclude', 'generics (nested)', 'interface extends',
                       'enum', 'typeof const', 'template literals', 'intersections', 'discriminated unions', 'tuples with rest', 'index signatures', 'Date/bigint/Map/Set/typed array', 'recursive types'],
        'bounds': 'as C03 (valcheck): input depth <= 2 below the root, arrays <= longest tuple + 1, keys = declared + 1 fresh; programs enumerated from templates with random operands',
        'outside_claim': ['programs not generated', 'arrays / functions as members of all-optional object types (treated as non-members, beff convention)', 'custom formats', 'number formats of `${number}` templates'],
    }
    assumptions = ['the expected meaning attached to every generated program (this file) is a correct reading of TypeScript for these constructs', 'jsdse engine assumptions as for C03', 'z3 4.8.12']
    return rep.finish('other', coverage, assumptions)


def construct_of(src):
    import re
    last = src.strip().split('\n')[-1]
    m = re.search(r'\b(Partial|Required|Pick|Omit|Record|Exclude|keyof|extends|typeof|Map|Set|Date|bigint|Uint8Array)\b', last)
    if m:
        return m.group(1)
    if '${' in last:
        return 'template'
    if '[K in' in last:
        return 'mapped'
    if '&' in last:
        return 'intersection'
    if re.search(r'\bBox\d+<|\bOuter\d+<', last):
        return 'generic'
    if re.search(r'\bE\d+\b', last):
        return 'enum'
    if re.search(r'\bI\d+\b', last):
        return 'interface'
    return 'plain'


def replay(path):
    d = json.load(open(path))
    c13.build_runtime()
    r = valcheck.run_harness(d['replay']['job'], valcheck.RT, timeout=120)
    print(json.dumps(r)[:2000])
    return 1 if [v for v in r.get('violations', []) if v['prop'] == PID] else 0
