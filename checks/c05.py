"""C05 — assignability decisions coincide with inclusion of value sets.
Implementation side: the real to_sem_type + is_subtype / is_same_type (beffdrv subtype), one fresh context per pair.
Oracle side (solver): incl(A,B) :<=> not exists v. exact(A,v) and not struct(B,v), v a bounded symbolic value (semval)."""
import os, sys, json, time, random, itertools, multiprocessing as mp
import z3
from lib.common import Report, Inconclusive, beffdrv, seed
from semval.types import (to_ts, Val, Sem, keys_of, depth_of, is_recursive, max_tuple_len, in_type, idx_dom)

PID = 'C05'

NULL, BOOL, NUM, STR = ('null',), ('bool',), ('num',), ('str',)


def lit(v):
    return ('lit', v)


def obj(props, index=None, dom=None):
    return ('obj', props, index) if dom is None else ('obj', props, index, dom)


LEAVES = [NULL, BOOL, NUM, STR, lit(True), lit(1), lit(2), lit('a'), lit('b')]
RLEAVES = [NUM, STR, lit(1), NULL]

NAMED = {
    'L1': obj({'v': (NUM, False), 'next': (('or', [('ref', 'L1'), NULL]), False)}),
    'L2': obj({'v': (('or', [NUM, STR]), False), 'next': (('or', [('ref', 'L2'), NULL]), False)}),
    'L3': obj({'v': (NUM, False), 'next': (('ref', 'L3'), True)}),
    'T1': ('or', [('tup', [NUM, ('ref', 'T1')], None), NULL]),
    'Tree': obj({'l': (('ref', 'Tree'), True), 'r': (('ref', 'Tree'), True), 'v': (NUM, False)}),
    'Ev': obj({'k': (lit('e'), False), 'o': (('or', [('ref', 'Od'), NULL]), False)}),
    'Od': obj({'k': (lit('o'), False), 'e': (('or', [('ref', 'Ev'), NULL]), False)}),
    'P2': ('tup', [STR, NUM], None),
    'P1': ('tup', [NUM], None),
    'PR': ('tup', [STR], NUM),
    'NA': ('arr', NUM),
    'NO': obj({'a': (STR, False)}),
    'NL': ('arr', ('ref', 'NL')),
    'SA': ('arr', STR),
    'SS': ('tup', [STR, STR], None),
    'SR': ('tup', [STR], STR),
    'TU': ('tup', [NUM, ('ref', 'TU')], None),                                     # no finite value
    'OU': obj({'v': (NUM, False), 'next': (('ref', 'OU'), False)}),                # no finite value
}


def level1(leaves):
    out = []
    for t in leaves:
        out += [('arr', t), ('tup', [t], None), obj({'a': (t, False)}), obj({'a': (t, True)}), obj({}, t), ('tup', [], t)]
    for t, u in itertools.product(leaves, repeat=2):
        out += [('tup', [t, u], None), ('tup', [t], u), obj({'a': (t, False), 'b': (u, False)}), obj({'a': (t, False), 'b': (u, True)})]
        # TypeScript requires declared properties to conform to the index signature: keep the types well-formed
        out += [obj({'a': (t, False)}, t if t == u else ('or', [t, u]))]
        if t != u:
            out += [('or', [t, u])]
    out += [('tup', [], None), obj({})]
    return out


def level2(rng, l1, leaves, n):
    out = []
    for _ in range(n):
        k = rng.randrange(8)
        a, b = rng.choice(l1), rng.choice(l1)
        t = rng.choice(leaves)
        if k == 0:
            out.append(('or', [a, b]))
        elif k == 1:
            out.append(('and', [a, b]))
        elif k == 2:
            out.append(('arr', a))
        elif k == 3:
            out.append(obj({'a': (a, False), 'b': (t, rng.random() < 0.5)}))
        elif k == 4:
            out.append(('tup', [a, t], None if rng.random() < 0.5 else b))
        elif k == 5:
            out.append(('or', [a, t]))
        elif k == 6:
            out.append(obj({'a': (t, False)}, ('or', [t, a])))
        else:
            out.append(('and', [('or', [a, t]), ('or', [b, t])]))
    return [x for x in out if well_formed(x)]


def well_formed(t):
    """TypeScript well-formedness: a declared property conforms to the object's index signature (checked syntactically)"""
    k = t[0]
    if k == 'obj':
        if t[2] is not None:
            alts = [to_ts(x) for x in (t[2][1] if t[2][0] == 'or' else [t[2]])] + [to_ts(t[2])]
            for ty, _ in t[1].values():
                if to_ts(ty) not in alts:
                    return False
        return all(well_formed(ty) for ty, _ in t[1].values()) and (t[2] is None or well_formed(t[2]))
    if k in ('arr',):
        return well_formed(t[1])
    if k == 'tup':
        return all(well_formed(x) for x in t[1]) and (t[2] is None or well_formed(t[2]))
    if k in ('or', 'and'):
        return all(well_formed(x) for x in t[1])
    return True


def _unused():
    out = []
    return out


def object_family(rng, n):
    """objects over keys a,b,c with required/optional string/number/literal members, and unions of two of them"""
    tys = [STR, NUM, lit(1), lit('a')]
    objs = []
    for _ in range(n):
        props = {}
        for key in ('a', 'b', 'c'):
            r = rng.random()
            if r < 0.2:
                continue
            props[key] = (rng.choice(tys), r > 0.65)
        if rng.random() < 0.25:
            vals = sorted({to_ts(ty): ty for ty, _ in props.values()}.items())
            ix = ('or', [ty for _, ty in vals]) if len(vals) > 1 else (vals[0][1] if vals else STR)
            objs.append(obj(props, ix))
        else:
            objs.append(obj(props))
    out = list(objs)
    for _ in range(n):
        a, b = rng.choice(objs), rng.choice(objs)
        if a is not b:
            out.append(('or', [a, b]))
    return out


def targeted_pairs(rng, n):
    """object vs union-of-two-objects over keys a,b,c (the decomposition of a record difference over several keys and
    several negatives), and tuple vs union-of-two-tuples of different lengths"""
    tys = [STR, NUM]

    def rnd_obj(p_absent):
        props = {}
        for key in ('a', 'b', 'c'):
            r = rng.random()
            if r < p_absent:
                continue
            props[key] = (rng.choice(tys), rng.random() < 0.5)
        return obj(props)

    def rnd_tup():
        n_ = rng.randrange(0, 3)
        return ('tup', [rng.choice(tys + [NULL]) for _ in range(n_)], rng.choice([None, None, STR, NUM, NULL]))
    out = []
    for _ in range(n):
        if rng.random() < 0.7:
            out.append((rnd_obj(0.15), ('or', [rnd_obj(0.2), rnd_obj(0.45)])))
        else:
            out.append((rnd_tup(), ('or', [rnd_tup(), rnd_tup()])))
    return out


def systematic_pairs():
    """small exhaustive families that are always part of a run (not sampled):
    (1) array / open tuple with a SHORTER prefix against a longer open or closed tuple (padding of the positive prefix in list_inhabited);
    (2) semantically empty types with structure (E) against never, and X | E against X (is_same_type must not depend on how a type is spelled)"""
    out = []
    ts = [NUM, STR]
    lefts = [('tup', list(p), r) for r in ts for p in [()] + [(x,) for x in ts]]
    rights = [('tup', list(q), r) for r in ts + [None] for q in [(x,) for x in ts] + [(x, y) for x in ts for y in ts]]
    for a in lefts:
        for b in rights:
            if len(a[1]) < len(b[1]):
                out.append((a, b))
                # the same, with every shorter list of the left type covered by closed tuples on the right, so that the decision is made
                # at the padded positions
                cover = [('tup', a[1] + [a[2]] * k, None) for k in range(len(b[1]) - len(a[1]))]
                out.append((a, ('or', cover + [b])))
    empties = [('and', [obj({'a': (STR, False)}), obj({'a': (NUM, False)})]),
               ('and', [('tup', [STR], None), ('tup', [NUM], None)]),
               ('and', [('tup', [STR], None), ('tup', [STR, STR], None)]),
               ('and', [obj({'a': (lit(1), False)}), obj({'a': (lit(2), False), 'b': (STR, True)})]),
               # uninhabited without any intersection: a never member, recursion without a base case
               ('tup', [STR, ('never',)], None), ('tup', [('never',)], STR), obj({'a': (('never',), False)}), ('ref', 'TU'), ('ref', 'OU'),
               obj({'a': (('ref', 'TU'), False)}), ('tup', [('ref', 'OU')], None), ('arr', ('tup', [('never',)], None))]
    xs = [STR, obj({'a': (STR, False)}), ('arr', NUM), ('tup', [NUM], None)]
    for e in empties:
        out.append((e, ('never',)))
        out.append((('never',), e))
        for x in xs:
            out.append((('or', [x, e]), x))
            out.append((x, ('or', [x, e])))
    # (3) intersections of two list types (array / closed tuple / open tuple, inline and named, in both orders): the positive atoms of one
    #     conjunction are combined by list_formula_is_empty, which pads the shorter prefix with the rest of the list it belongs to
    lists = [('arr', STR), ('arr', NUM), ('tup', [STR], None), ('tup', [STR, STR], None), ('tup', [STR, NUM], None), ('tup', [STR], STR), ('tup', [STR], NUM),
             ('tup', [STR, STR], STR), ('tup', [NUM], STR), ('ref', 'SA'), ('ref', 'SS'), ('ref', 'SR'), ('ref', 'NA'), ('ref', 'P2'), ('ref', 'PR')]
    for a in lists:
        for b in lists:
            if a is b:
                continue
            i = ('and', [a, b])
            out.append((i, ('never',)))
            out.append((a, i))
            out.append((i, ('tup', [STR, STR], None)))
    # (4) a tag property that admits a string literal AND something else (null, a number, a second literal, absence), against a union of two
    #     such objects: the difference of records must look at the whole type of the shared property, not only at its literal part
    tagt = [lit('ok'), lit('err'), ('or', [lit('ok'), NULL]), ('or', [lit('err'), NULL]), ('or', [lit('ok'), lit('err')]), ('or', [lit('ok'), NUM]), STR]
    lefts4 = [obj({'status': (t, o)}) for t in tagt for o in (False, True)]
    members = [obj({'status': (t, o)}) for t, o in [(tagt[0], False), (tagt[1], False), (tagt[2], False), (tagt[3], False), (tagt[0], True), (tagt[1], True), (tagt[5], False)]]
    members += [obj({'status': (tagt[0], False), 'x': (NUM, True)})]
    for a in lefts4:
        for i, m1 in enumerate(members):
            for m2 in members[i + 1:]:
                out.append((a, ('or', [m1, m2])))
    return out


def conditional_pairs():
    """pairs decided by the frontend itself while it evaluates `A extends B ? "y" : "n"` (the user-facing use of the decision; Exclude results are used
    as semantic types here, without being materialised as named types first): literal sets with excluded literals, in every union order"""
    def ex(base, *ls):
        return ('and', [base, ('not', ('or', [lit(x) for x in ls]) if len(ls) > 1 else lit(ls[0]))])
    e1, e12, es = ex(NUM, 1), ex(NUM, 1, 2), ex(STR, 'a')
    xs = [NUM, STR, lit(1), lit(2), lit(3), lit('a'), lit('b'), e1, e12, es, ('ref', 'XN1'), ('ref', 'XSA'),
          ('or', [('ref', 'XN1'), lit(1)]), ('or', [('ref', 'XN1'), lit(1), lit(2)]), ('or', [('ref', 'XN1'), lit(2)]), ('or', [lit(1), ('ref', 'XN1')]),
          ('or', [e1, lit(1), lit(2)]), ('or', [('ref', 'XSA'), lit('a')]), ('or', [('ref', 'XSA'), lit('b')]), ('or', [e12, lit(1)]), ('or', [lit(1), lit(2)]),
          ('and', [('ref', 'XN1'), ('or', [lit(1), lit(2)])]), ('and', [e1, e12]), ('or', [e1, es]), ('or', [('ref', 'XN1'), ('ref', 'XSA'), lit('a')]),
          ('or', [lit(1), lit('a')]), ('or', [NUM, lit('a')]), ('and', [('or', [NUM, STR]), ('not', ('or', [lit(1), lit('a')]))])]
    return [(a, b) for a in xs for b in xs if a is not b]


COND_NAMED = {'XN1': ('and', [NUM, ('not', lit(1))]), 'XSA': ('and', [STR, ('not', lit('a'))])}


def strip_bases(t):
    """the reading of the known defect 'an Exclude result over an infinite base is materialised as Not<literals>, the base is lost':
    Exclude<base, X> := every value except X"""
    k = t[0]
    if k == 'and' and any(x[0] == 'not' for x in t[1]):
        nots = []
        for x in t[1]:
            if x[0] == 'not':
                # several excluded literals come out as a UNION of negations (Not<1> | Not<2>, i.e. every value)
                nots.append(('or', [('not', l) for l in x[1][1]]) if x[1][0] == 'or' else x)
        return nots[0] if len(nots) == 1 else ('and', nots)
    if k in ('or', 'and'):
        return (k, [strip_bases(x) for x in t[1]])
    return t


def _cond_oracle(args):
    k, a, b = args
    env = dict(NAMED)
    env.update(COND_NAMED)
    try:
        r = oracle_incl(a, b, env)
        # second reading (the known defect): does the decision coincide with the one for the base-less types?
        env2 = dict(env)
        env2.update({n: strip_bases(t) for n, t in COND_NAMED.items()})
        r2 = oracle_incl(strip_bases(a), strip_bases(b), env2)
        return k, (r[0], r[1], dict(r[2], defect_reading=r2[0]))
    except Exception:
        import traceback
        return k, ('unknown', 'oracle error: ' + traceback.format_exc()[-300:], {})


def conditional_layer(rep):
    pairs = conditional_pairs()
    lines = [f'type {n} = {to_ts(t)};' for n, t in COND_NAMED.items()]
    for k, (a, b) in enumerate(pairs):
        lines.append(f'type R{k} = {to_ts(a)} extends {to_ts(b)} ? "y" : "n";')
    lines.append('parse.buildParsers<{' + ', '.join(f'R{k}: R{k}' for k in range(len(pairs))) + '}>();')
    src = '\n'.join(lines)
    r = beffdrv('compile', {'files': {'entry.ts': src}, 'emit': False}, timeout=600)
    if r.get('panic') or r.get('parse_error') or r.get('errors'):
        # find the offending declarations one by one would be slow: report as inconclusive with the message (a panic of the frontend is C04's subject)
        rep.note_inconclusive('conditional layer: the program does not compile: ' + json.dumps({x: r.get(x) for x in ('panic', 'parse_error', 'errors')})[:300])
        return {'pairs': 0}
    def answer(sc):
        if sc.get('k') == 'const':
            return sc['v']
        if sc.get('k') == 'tpl' and len(sc.get('items', [])) == 1 and sc['items'][0].get('k') == 'const':
            return sc['items'][0]['v']
        return None
    got = {}
    import re
    for v in r.get('validators', []):
        m = re.search(r'name: "R(\d+)"', v['name'])
        a = answer(v['schema'])
        if m and a in ('y', 'n'):
            got[int(m.group(1))] = a
    with mp.Pool(min(16, os.cpu_count() or 4)) as pool_:
        orc = dict(pool_.imap_unordered(_cond_oracle, [(k, a, b) for k, (a, b) in enumerate(pairs)], chunksize=8))
    st = {'pairs': len(pairs), 'agree': 0, 'unknown': 0, 'solver_s': 0.0}
    for k, (a, b) in enumerate(pairs):
        verdict, w, bounds = orc[k]
        st['solver_s'] += bounds.get('solver_s', 0)
        desc = f'{to_ts(a)}  extends  {to_ts(b)}'
        if k not in got or verdict == 'unknown':
            st['unknown'] += 1
            continue
        yes = got[k] == 'y'
        one = '\n'.join(lines[:len(COND_NAMED)]) + f'\ntype R = {to_ts(a)} extends {to_ts(b)} ? "y" : "n";\nparse.buildParsers<{{R: R}}>();'
        if yes == (verdict == 'incl'):
            st['agree'] += 1
            continue
        # replay in isolation, dev and release
        iso = [beffdrv('compile', {'files': {'entry.ts': one}, 'emit': False}, profile=pr, timeout=60) for pr in ('dev', 'release')]
        vals = [[answer(d['schema']) for d in x.get('validators', []) if 'name: "R"' in d['name']] for x in iso]
        if not all(v == [got[k]] for v in vals):
            rep.note_inconclusive(f'conditional disagreement for {desc} did not reproduce in isolation: {vals}')
            continue
        feats = sorted(features(a, dict(NAMED, **COND_NAMED)) | features(b, dict(NAMED, **COND_NAMED)))
        shape = ('named-' if 'XN1' in desc or 'XSA' in desc else '') + 'excluded-literals'
        if bounds.get('defect_reading') in ('incl', 'witness') and yes == (bounds['defect_reading'] == 'incl'):
            # the decision is the right one for the base-less reading: the known defect, not a new one
            rep.violation('c05:conditional:exclude-result-loses-its-base-type', f'{desc}: decided {"assignable" if yes else "not assignable"}', {'cmd': 'compile', 'input': {'files': {'entry.ts': one}, 'emit': False}})
            st['known_defect_reading'] = st.get('known_defect_reading', 0) + 1
            continue
        if yes:
            rep.violation(f'c05:conditional:accepts:{shape}', f'the conditional type takes the true branch, but {json.dumps(w)} is a value of the first type and not of the second: {desc}',
                          {'cmd': 'compile', 'input': {'files': {'entry.ts': one}, 'emit': False}, 'witness': w})
        else:
            rep.violation(f'c05:conditional:rejects:{shape}', f'the conditional type takes the false branch, but no value of the first type lies outside the second (unsat, complete for these types): {desc}',
                          {'cmd': 'compile', 'input': {'files': {'entry.ts': one}, 'emit': False}})
    st['solver_s'] = round(st['solver_s'], 2)
    return st


def targeted_pairs2(rng, n):
    """object with all of a,b,c against a union of a three-key object and a small object: at least two keys differ against the first member"""
    tys = [STR, NUM, ('or', [STR, NUM])]

    def full(opt_p, tps):
        return obj({k: (rng.choice(tps), rng.random() < opt_p) for k in ('a', 'b', 'c')})

    def small():
        ks = rng.sample(['a', 'b', 'c'], rng.choice([1, 1, 2]))
        return obj({k: (rng.choice([STR, NUM]), rng.random() < 0.5) for k in ks})
    out = []
    for _ in range(n):
        out.append((full(0.5, tys), ('or', [full(0.3, [STR, NUM]), small()])))
    return out


def index_family():
    out = []
    # key domains `string` and `string | number` (both = every key, since JS keys are strings); `number` alone is left out: which string
    # keys count as numeric is not fixed by the property
    for dom in (None, 'string+number'):
        for v in (STR, NUM, ('or', [STR, NUM]), lit(1)):
            out.append(obj({}, v, dom))
    return out


def type_pool(tier, rng):
    l1 = level1(RLEAVES)
    named = [('ref', n) for n in NAMED]
    wrappers = [('or', [('ref', 'L1'), ('ref', 'NO')]), ('arr', ('ref', 'P2')), ('tup', [('ref', 'P1'), ('ref', 'P1')], None),
                obj({'a': (('ref', 'P2'), False)}), ('or', [('ref', 'P2'), NULL]), ('arr', ('ref', 'L1')),
                obj({'v': (NUM, False), 'next': (NULL, False)}), obj({'v': (NUM, False), 'next': (obj({'v': (NUM, False), 'next': (NULL, False)}), False)}),
                ('tup', [NUM, NULL], None), ('tup', [NUM, ('tup', [NUM, NULL], None)], None),
                obj({'k': (lit('e'), False), 'o': (NULL, False)}), obj({'v': (NUM, False)}),
                ('and', [obj({'a': (STR, False)}), obj({'b': (NUM, True)})]), ('and', [('ref', 'NO'), obj({'b': (NUM, False)})])]
    if tier == 'quick':
        pool = LEAVES + rng.sample(l1, 26) + named + wrappers + level2(rng, l1, RLEAVES, 8) + object_family(rng, 10) + index_family()
    else:
        pool = LEAVES + l1 + named + wrappers + level2(rng, l1, RLEAVES, 120) + object_family(rng, 60) + index_family()
    # de-duplicate
    seen, out = set(), []
    for t in pool:
        s = to_ts(t)
        if s not in seen:
            seen.add(s)
            out.append(t)
    return out


def program(pool):
    lines = [f'type {n} = {to_ts(t)};' for n, t in NAMED.items()]
    names = []
    for i, t in enumerate(pool):
        if t[0] == 'ref':
            names.append(t[1])
        else:
            names.append(f'X{i}')
            lines.append(f'type X{i} = {to_ts(t)};')
    allnames = sorted(set(names) | set(NAMED))
    lines.append('parse.buildParsers<{' + ', '.join(f'{n}: {n}' for n in allnames) + '}>();')
    return '\n'.join(lines), names


# ------------------------------------------------------------------------------------------ oracle
def features(t, env, acc=None, seen=None):
    acc = set() if acc is None else acc
    seen = set() if seen is None else seen
    k = t[0]
    if k == 'ref':
        tgt = env[t[1]]
        acc.add('named-' + tgt[0])
        if t[1] not in seen:
            seen.add(t[1])
            if is_recursive(t, env):
                acc.add('recursive')
            features(tgt, env, acc, seen)
    elif k == 'tup':
        acc.add('tuple-rest' if t[2] is not None else 'tuple')
        for x in t[1]:
            features(x, env, acc, seen)
        if t[2] is not None:
            features(t[2], env, acc, seen)
    elif k == 'obj':
        acc.add('object')
        if any(o for _, o in t[1].values()):
            acc.add('optional-prop')
        if t[2] is not None:
            acc.add('index-sig')
            if idx_dom(t) != 'string':
                acc.add('index-key-' + idx_dom(t))
            features(t[2], env, acc, seen)
        for ty, _ in t[1].values():
            features(ty, env, acc, seen)
    elif k == 'arr':
        acc.add('array')
        features(t[1], env, acc, seen)
    elif k in ('or', 'and'):
        acc.add('union' if k == 'or' else 'intersection')
        for x in t[1]:
            features(x, env, acc, seen)
    return acc


def union_members(t, env, depth=0):
    t2 = t
    while t2[0] == 'ref' and depth < 20:
        t2 = env[t2[1]]
        depth += 1
    if t2[0] == 'or':
        out = []
        for x in t2[1]:
            out += union_members(x, env, depth + 1)
        return out
    return [t2]


def sibling_open_cover(a, w, env):
    """role of the known finding 'exact positive / open negative': the witness is an exact value of one object member of a
    union on the left-hand side and is, read structurally (extra keys allowed), also a value of another object member."""
    ms = [m for m in union_members(a, env) if m[0] == 'obj']
    if len(ms) < 2 or not isinstance(w, dict):
        return False
    try:
        exact_in = [m for m in ms if in_type(m, w, 'exact', env)]
        for m in exact_in:
            for o in ms:
                if o is not m and not in_type(o, w, 'exact', env) and in_type(o, w, 'struct', env):
                    return True
    except RecursionError:
        return False
    return False


def oracle_incl(a, b, env, extra_depth=0, timeout_ms=20000):
    """returns ('incl', None) | ('witness', value) | ('unknown', reason); bounds chosen from the two types"""
    keys = sorted(keys_of(a, env) | keys_of(b, env)) + ['zz']
    L = max(max_tuple_len(a, env), max_tuple_len(b, env)) + 1
    rec = is_recursive(a, env) or is_recursive(b, env)
    D = max(depth_of(a, env), depth_of(b, env)) + (2 if rec else 0) + extra_depth
    D = max(D, 1)
    if (L + len(keys)) ** D > 6000:
        D = max(1, D - 1)
        if (L + len(keys)) ** D > 6000:
            return 'unknown', 'template too large', {}
    sem = Sem(env, ['a', 'b', 'e', 'o'])
    v = Val(D, L, keys)
    s = z3.Solver()
    s.set('timeout', timeout_ms)
    s.add(v.cons)
    s.add(sem.member(a, v, 'exact'))
    s.add(z3.Not(sem.member(b, v, 'struct')))
    t0 = time.time()
    r = s.check()
    dt = time.time() - t0
    bounds = {'D': D, 'L': L, 'keys': keys, 'solver_s': round(dt, 3), 'complete': not rec}
    if r == z3.unsat:
        return 'incl', None, bounds
    if r == z3.sat:
        w = v.concretise(s.model(), sem.strings)
        # independent concrete validation of the witness
        if not (in_type(a, w, 'exact', env) and not in_type(b, w, 'struct', env)):
            return 'unknown', f'witness {json.dumps(w)} not confirmed by the concrete evaluator', bounds
        return 'witness', w, bounds
    return 'unknown', 'solver: ' + s.reason_unknown(), bounds


def _oracle_task(args):
    i, j, a, b = args
    try:
        r1 = oracle_incl(a, b, NAMED)
        return i, j, r1
    except (RecursionError, NotImplementedError) as e:
        return i, j, ('unknown', 'oracle: ' + str(e)[:80], {})
    except Exception as e:
        import traceback
        return i, j, ('unknown', 'oracle error: ' + traceback.format_exc()[-400:], {})


def native_pair(src, an, bn):
    res = {}
    for prof in ('dev', 'release'):
        r = beffdrv('subtype', {'files': {'entry.ts': src}, 'pairs': [[an, bn]]}, profile=prof, timeout=60)
        res[prof] = (r.get('results') or [r])[0]
    return res


def main(tier):
    rep = Report(PID, tier)
    rng = random.Random(seed())
    pool = type_pool(tier, rng)
    idx = list(range(len(pool)))
    pairs = [(i, j) for i in idx for j in idx]
    if tier == 'quick' and len(pairs) > 3500:
        pairs = rng.sample(pairs, 3500)
    extra_pairs = targeted_pairs(rng, 400 if tier == 'quick' else 6000) + targeted_pairs2(rng, 500 if tier == 'quick' else 4000) + systematic_pairs()
    for a, b in extra_pairs:
        pool.append(a)
        pool.append(b)
        pairs.append((len(pool) - 2, len(pool) - 1))
    src, names = program(pool)
    # implementation side: one native process for all pairs
    t0 = time.time()
    CH = 1500
    real = {}
    for c in range(0, len(pairs), CH):
        chunk = pairs[c:c + CH]
        r = beffdrv('subtype', {'files': {'entry.ts': src}, 'pairs': [[names[i], names[j]] for i, j in chunk]}, timeout=900)
        if 'results' not in r:
            raise Inconclusive('beffdrv subtype failed: ' + json.dumps(r)[:600])
        for (i, j), x in zip(chunk, r['results']):
            real[(i, j)] = x
    native_s = time.time() - t0
    # oracle side
    t1 = time.time()
    with mp.Pool(min(16, os.cpu_count() or 4)) as pool_:
        orc = {}
        for i, j, r in pool_.imap_unordered(_oracle_task, [(i, j, pool[i], pool[j]) for i, j in pairs], chunksize=8):
            orc[(i, j)] = r
    oracle_s = time.time() - t1
    stats = {'pairs': len(pairs), 'agree_incl': 0, 'agree_not_incl': 0, 'oracle_unknown': 0, 'undecided_recursive': 0,
             'panics': 0, 'errors': 0, 'solver_s': 0.0, 'witnesses_validated': 0}
    samples = []
    slow = 0
    for (i, j) in pairs:
        x = real[(i, j)]
        verdict, w, bounds = orc[(i, j)]
        stats['solver_s'] += bounds.get('solver_s', 0)
        a, b = pool[i], pool[j]
        feats = sorted(features(a, NAMED) | features(b, NAMED))
        desc = f'{to_ts(a)}  extends  {to_ts(b)}'
        if x.get('ms', 0) > 5000:
            slow += 1
        if 'error' in x and 'panic' not in x:
            # the engine refused to decide (anyhow error -> a diagnostic at source level): not a wrong decision
            stats['errors'] += 1
            continue
        if 'panic' in x:
            kind = 'panic'
            stats['panics'] += 1
            nat = native_pair(src, names[i], names[j])
            if kind in nat['dev'] and kind in nat['release']:
                loc = str(x.get(kind))[:80]
                rep.violation(f'c05:{kind}:{loc}', f'assignability decision {kind}s: {desc}: {x.get(kind)}',
                              {'cmd': 'subtype', 'input': {'files': {'entry.ts': src}, 'pairs': [[names[i], names[j]]]}, 'native': nat})
            else:
                rep.note_inconclusive(f'{kind} for {desc} did not reproduce in isolation')
            continue
        if verdict == 'unknown':
            stats['oracle_unknown'] += 1
            continue
        if x['same'] != (x['sub'] and x['sup']):
            rep.violation('c05:same-vs-sub:' + '+'.join(feats), f'is_same_type={x["same"]} but is_subtype both ways = ({x["sub"]},{x["sup"]}): {desc}',
                          {'cmd': 'subtype', 'input': {'files': {'entry.ts': src}, 'pairs': [[names[i], names[j]]]}})
        if x['sub'] and verdict == 'witness':
            stats['witnesses_validated'] += 1
            nat = native_pair(src, names[i], names[j])
            if nat['dev'].get('sub') and nat['release'].get('sub'):
                role = 'union-member-open-covers-witness' if sibling_open_cover(a, w, NAMED) else '+'.join(feats)
                fa, fb = features(a, NAMED, set(), set()), features(b, NAMED, set(), set())
                if 'index-key-string+number' in fa and 'index-sig' in fb and 'index-key-string+number' not in fb:
                    role = 'index-key-domain-wider-than-target'
                rep.violation('c05:accepts:' + role,
                              f'decided assignable, but {json.dumps(w)} is an exact value of the first type and not a value of the second: {desc}',
                              {'cmd': 'subtype', 'input': {'files': {'entry.ts': src}, 'pairs': [[names[i], names[j]]]}, 'witness': w, 'native': nat})
            else:
                rep.note_inconclusive(f'accepts-disagreement for {desc} did not reproduce in isolation')
        elif (not x['sub']) and verdict == 'incl':
            if bounds.get('complete'):
                nat = native_pair(src, names[i], names[j])
                if nat['dev'].get('sub') is False and nat['release'].get('sub') is False:
                    rep.violation('c05:rejects:' + '+'.join(feats),
                                  f'decided NOT assignable, but no exact value of the first type lies outside the second (solver: unsat within bounds '
                                  f'D={bounds["D"]} L={bounds["L"]} keys={bounds["keys"]}, complete for these non-recursive types): {desc}',
                                  {'cmd': 'subtype', 'input': {'files': {'entry.ts': src}, 'pairs': [[names[i], names[j]]]}, 'native': nat, 'bounds': bounds})
                else:
                    rep.note_inconclusive(f'rejects-disagreement for {desc} did not reproduce in isolation')
            else:
                # recursive types: try deeper before giving up
                v2, w2, b2 = oracle_incl(a, b, NAMED, extra_depth=2)
                if v2 == 'witness':
                    stats['agree_not_incl'] += 1
                else:
                    stats['undecided_recursive'] += 1
                    nat = native_pair(src, names[i], names[j])
                    rep.violation('c05:rejects-rec:' + '+'.join(feats),
                                  f'decided NOT assignable, but the solver finds no separating value up to depth {b2.get("D")} (recursive types: bounded '
                                  f'claim): {desc}',
                                  {'cmd': 'subtype', 'input': {'files': {'entry.ts': src}, 'pairs': [[names[i], names[j]]]}, 'native': nat, 'bounds': b2})
        else:
            stats['agree_incl' if x['sub'] else 'agree_not_incl'] += 1
            if len(samples) < 6 and (verdict == 'witness' or rng.random() < 0.01):
                samples.append({'A': to_ts(a), 'B': to_ts(b), 'real_is_subtype': x['sub'], 'oracle': verdict, 'witness': w, 'bounds': bounds})
    cond = conditional_layer(rep)
    if slow:
        rep.note_inconclusive(f'{slow} decisions took more than 5 s (termination watchdog)')
    if stats['oracle_unknown'] > len(pairs) // 20:
        rep.note_inconclusive(f'oracle undecided on {stats["oracle_unknown"]} of {len(pairs)} pairs')
    stats['solver_s'] = round(stats['solver_s'], 2)
    nontrivial = stats['agree_incl'] + stats['agree_not_incl']
    coverage = {
        'explanation': 'For every enumerated pair (A,B) the real engine decides is_subtype/is_same_type natively; z3 decides the property\'s right-hand '
                       'side over ALL values within the stated template (exists v. exact(A,v) and not struct(B,v)); every sat witness is re-validated by '
                       'an independent concrete evaluator and every disagreement is re-run natively in dev and release before it is reported.',
        'evaluations': len(pairs),
        'distinct_nontrivial': nontrivial,
        'rule': 'pairs over a grammar-generated pool of %d types (leaves, arrays, tuples with rest, objects with optional props / index signatures, '
                'unions, intersections, named and (mutually) recursive refs); non-trivial = both sides decided and compared' % len(pool),
        'samples': samples[:6] or [{'A': to_ts(pool[0]), 'B': to_ts(pool[1])}],
        'stats': stats, 'conditional_layer': cond,
        'queries': len(pairs) + cond.get('pairs', 0), 'solver_s': stats['solver_s'], 'native_s': round(native_s, 1), 'oracle_wall_s': round(oracle_s, 1),
        'bounds': 'value template: depth = nesting depth of the two types (+2 for recursive types), arrays <= longest tuple prefix + 1, keys = declared '
                  'keys + 1 fresh, integers unbounded, strings = literals mentioned + unboundedly many fresh; complete for non-recursive types',
        'functions_under_test': ['ToSemType::to_sem_type', 'SemTypeOps::is_subtype', 'SemTypeOps::is_same_type', 'list_inhabited', 'check_mapping_empty'],
        'outside_claim': ['type pairs not enumerated', 'index signatures whose key domain is `number` alone (string and string | number are covered)', 'recursive types beyond the unfolding depth', 'undefined/void, formats, template literals, Date/bigint/Map/Set'],
    }
    assumptions = ['the oracle semantics (semval) reads the property text: exact = declared keys only, structural = extra keys allowed',
                   'implementation inputs are enumerated (not solver-quantified); the solver quantifies over values', 'z3 4.8.12']
    return rep.finish('other', coverage, assumptions)


def replay(path):
    d = json.load(open(path))
    r = beffdrv(d['replay'].get('cmd', 'subtype'), d['replay']['input'])
    print(json.dumps(r))
    return 0
