"""C07 — semantically computed types reach code generation unchanged in meaning (translation validation).
For source programs using Exclude / keyof / indexed access (semantic paths of the frontend) the real compiler's
resulting Runtype IR is compared, by z3 over all values of a bounded symbolic value, with the meaning of the
computed type (set difference / key set / member type union of the operand meanings).  Structural obligations:
the result is printable (emit_code succeeds) and helper names are defined once (no panic / diagnostic)."""
import os, sys, json, time, random, itertools, multiprocessing as mp
import z3
from lib.common import Report, Inconclusive, beffdrv, seed
from semval.types import (to_ts, Val, Sem, keys_of, depth_of, is_recursive, max_tuple_len, in_type)
from checks.c05 import NAMED, LEAVES, RLEAVES, level1, obj, lit, NULL, BOOL, NUM, STR

PID = 'C07'


class Unsupported(Exception):
    pass


def from_ir(j, refs):
    """beffdrv Runtype JSON -> semval type; refs: set of names encountered"""
    k = j['k']
    if k == 'null':
        return ('null',)
    if k in ('undefined', 'void'):
        return ('undef',)
    if k == 'boolean':
        return ('bool',)
    if k == 'string':
        return ('str',)
    if k == 'number':
        return ('num',)
    if k == 'any':
        return ('any',)
    if k == 'never':
        return ('never',)
    if k == 'anyarray':
        return ('arr', ('any',))
    if k == 'const':
        return ('lit', j['v'])
    if k == 'tpl':
        items = j['items']
        if len(items) == 1 and items[0]['k'] == 'const':
            return ('lit', items[0]['v'])
        if len(items) == 1 and items[0]['k'] == 'string':
            return ('str',)
        raise Unsupported('template literal')
    if k == 'object':
        props = {key: (from_ir(v['t'], refs), v['optional']) for key, v in j['props'].items()}
        idx = None
        if j['index'] is not None:
            if j['index']['key']['k'] != 'string':
                raise Unsupported('non-string index key')
            idx = from_ir(j['index']['value']['t'], refs)
        return ('obj', props, idx)
    if k == 'array':
        return ('arr', from_ir(j['t'], refs))
    if k == 'tuple':
        return ('tup', [from_ir(x, refs) for x in j['prefix']], from_ir(j['rest'], refs) if j['rest'] is not None else None)
    if k == 'ref':
        refs.add(j['name'])
        return ('ref', j['name'])
    if k == 'anyof':
        return ('or', [from_ir(x, refs) for x in j['items']])
    if k == 'allof':
        return ('and', [from_ir(x, refs) for x in j['items']])
    if k == 'not':
        return ('not', from_ir(j['t'], refs))
    raise Unsupported(k)


def has_not(t, env, seen=None):
    seen = set() if seen is None else seen
    k = t[0]
    if k == 'not':
        return True
    if k == 'ref':
        if t[1] in seen or t[1] not in env:
            return False
        seen.add(t[1])
        return has_not(env[t[1]], env, seen)
    if k == 'obj':
        return any(has_not(ty, env, seen) for ty, _ in t[1].values()) or (t[2] is not None and has_not(t[2], env, seen))
    if k == 'arr':
        return has_not(t[1], env, seen)
    if k == 'tup':
        return any(has_not(x, env, seen) for x in t[1]) or (t[2] is not None and has_not(t[2], env, seen))
    if k in ('or', 'and'):
        return any(has_not(x, env, seen) for x in t[1])
    return False


# ------------------------------------------------------------------------------- expected meanings
def expected_keyof(t, env, depth=0):
    """set of declared keys, or 'string' when an index signature admits every key; None if not an object-ish type"""
    if depth > 20:
        return None
    k = t[0]
    if k == 'ref':
        return expected_keyof(env[t[1]], env, depth + 1)
    if k == 'obj':
        if t[2] is not None:
            return 'string'
        return set(t[1].keys())
    if k == 'or':
        sets = [expected_keyof(x, env, depth + 1) for x in t[1]]
        if any(s is None for s in sets):
            return None
        acc = None
        for s in sets:
            if s == 'string':
                continue
            acc = set(s) if acc is None else acc & s
        return 'string' if acc is None else acc
    if k in ('null', 'undef') or (k == 'lit' and isinstance(t[1], str) and depth > 0):
        # a union member without declared keys: `keyof (T | null)` is `never`; a string literal member contributes the keys of String, none of which
        # the generated object types declare
        return set()
    if k == 'and':
        sets = [expected_keyof(x, env, depth + 1) for x in t[1]]
        if any(s is None for s in sets):
            return None
        if any(s == 'string' for s in sets):
            return 'string'
        acc = set()
        for s in sets:
            acc |= s
        return acc
    return None


def expected_access(t, key, env, depth=0):
    """T[key] for a string literal key: union over union members; None when not defined"""
    if depth > 20:
        return None
    k = t[0]
    if k == 'ref':
        return expected_access(env[t[1]], key, env, depth + 1)
    if k == 'obj':
        if key in t[1]:
            ty, opt = t[1][key]
            return ('or', [ty, ('undef',)]) if opt else ty
        if t[2] is not None:
            return t[2]          # as TypeScript without noUncheckedIndexedAccess
        return None
    if k == 'or':
        parts = [expected_access(x, key, env, depth + 1) for x in t[1]]
        if any(p is None for p in parts):
            return None
        return ('or', parts)
    if k == 'and':
        parts = [expected_access(x, key, env, depth + 1) for x in t[1]]
        parts = [p for p in parts if p is not None]
        if not parts:
            return None
        return ('and', parts) if len(parts) > 1 else parts[0]
    return None


# -------------------------------------------------------------------------------------- programs
def object_pool(rng):
    tys = [STR, NUM, lit(1), lit('a'), NULL, BOOL]
    out = []
    for _ in range(40):
        props = {}
        for key in ('a', 'b', 'c'):
            r = rng.random()
            if r < 0.3:
                continue
            props[key] = (rng.choice(tys), rng.random() < 0.35)
        out.append(obj(props))
    out += [obj({'k': (lit('x'), False), 'v': (NUM, False)}), obj({'k': (lit('y'), False), 'v': (STR, False)}),
            obj({'k': (lit('z'), False)}), obj({}, NUM), obj({'a': (NUM, False)}, NUM)]
    return out


def disc_objects(rng):
    """one object type per discriminant value: structurally disjoint members of a discriminated union"""
    tys = [STR, NUM, lit(1), NULL, BOOL, ('arr', NUM), ('tup', [STR, NUM], None)]
    out = []
    for d in ('x', 'y', 'z', 'w'):
        props = {'k': (lit(d), False)}
        for key in ('a', 'b'):
            if rng.random() < 0.6:
                props[key] = (rng.choice(tys), rng.random() < 0.3)
        out.append(obj(props))
    # a member with named properties AND an index signature (the index value type covers the declared properties, as TypeScript demands)
    out.append(obj({'k': (lit('i'), False), 'a': (STR, False)}, ('or', [STR, NUM])))
    out.append(obj({'k': (lit('j'), False)}, STR))
    return out


def disjoint_keys(ms):
    seen = set()
    for m in ms:
        if m[2] is not None or seen & set(m[1]):
            return False
        seen |= set(m[1])
    return True


def gen_cases(tier, rng):
    """list of dicts {kind, A, B|key, expect-fn}; every case becomes `type R<i> = ...` in one program chunk"""
    cases = []
    l1 = level1(RLEAVES)
    objs = object_pool(rng)
    prim = LEAVES
    n = 500 if tier == 'quick' else 5000
    named = [('ref', x) for x in ('L1', 'Ev', 'Od', 'P2', 'P1', 'NA')]
    ANY = ('any',)
    anys = [('tup', [STR], ANY), ('tup', [NUM, STR], ANY), ('arr', ANY), ('tup', [ANY], None), ('tup', [ANY, NUM], None)]
    tuples = [('tup', [STR, NUM], BOOL), ('tup', [STR], None), ('tup', [NUM, NUM], None), ('tup', [STR], NUM), ('tup', [BOOL, STR, NUM], NULL),
              ('tup', [], STR), ('tup', [lit(1), lit('a')], None)]
    for _ in range(n):
        r = rng.random()
        if r < 0.45:
            # Exclude<union, member-ish>
            l1s = [t for t in l1 if t[0] != 'obj']     # overlapping object members make `Exclude` reading-dependent: kept out
            pool = rng.choice([prim, prim + l1s, disc_objects(rng) + prim, l1s + named, prim + named, disc_objects(rng)])
            ms = rng.sample(pool, min(len(pool), rng.randrange(2, 5)))
            a = ('or', ms)
            b = rng.choice([rng.choice(ms), rng.choice(pool), ('or', rng.sample(ms, min(2, len(ms))))])
            cases.append({'kind': 'exclude', 'A': a, 'B': b})
        elif r < 0.5:
            ms = [rng.choice(anys)] + rng.sample(prim, 2)
            cases.append({'kind': 'exclude', 'A': ('or', ms), 'B': rng.choice(ms[1:])})
        elif r < 0.62:
            t = rng.choice(tuples) if rng.random() < 0.6 else ('or', rng.sample(tuples, 2))
            ks = rng.sample([0, 1, 2, 3], rng.choice([1, 1, 2]))
            cases.append({'kind': 'taccess', 'A': t, 'keys': sorted(ks)})
        elif r < 0.68:
            pool = prim
            a = rng.choice([NUM, STR, BOOL, ('or', [NUM, STR]), ('or', rng.sample(prim, 3))])
            b = rng.choice([lit(1), lit('a'), lit(True), ('or', [lit(1), lit(2)]), ('or', [lit('a'), lit('b')])])
            cases.append({'kind': 'exclude', 'A': a, 'B': b})
        elif r < 0.8:
            ms = rng.sample(objs, rng.randrange(2, 4))
            t = ('or', ms) if rng.random() < 0.6 or not disjoint_keys(ms[:2]) else ('and', ms[:2])
            if t[0] == 'or' and rng.random() < 0.3:
                t = ('or', ms + [rng.choice([NULL, lit('q'), ('undef',)])])      # a member without declared keys
            cases.append({'kind': 'keyof', 'A': t})
        else:
            ms = rng.sample(objs, rng.randrange(2, 4))
            t = ('or', ms) if rng.random() < 0.7 or not disjoint_keys(ms[:2]) else ('and', ms[:2])
            common = set(['a', 'b', 'c', 'k', 'v'])
            for m in ms:
                if m[2] is None:
                    common &= set(m[1])
            key = rng.choice(sorted(common)) if common and rng.random() < 0.8 else rng.choice(['a', 'b', 'c', 'k', 'v'])
            cases.append({'kind': 'access', 'A': t, 'key': key})
    # an object with named properties and an index signature must survive materialisation
    idx_obj = obj({'k': (lit('i'), False), 'a': (STR, False)}, ('or', [STR, NUM]))
    cases += [
        {'kind': 'exclude', 'A': ('or', [idx_obj, STR]), 'B': STR},
        {'kind': 'exclude', 'A': ('or', [idx_obj, obj({'k': (lit('x'), False), 'a': (NUM, False)}), NULL]), 'B': NULL},
        {'kind': 'keyof', 'A': ('or', [obj({'a': (STR, False), 'b': (NUM, False)}), lit('q')])},
        {'kind': 'keyof', 'A': ('or', [obj({'a': (STR, False), 'b': (NUM, False)}), ('undef',)])},
        {'kind': 'keyof', 'A': ('or', [obj({'a': (STR, False), 'b': (NUM, False)}), NULL])},
    ]
    # indexed access with a UNION of keys, some declared and some only admitted by an index signature; intersections with a Record
    ix1 = obj({'a': (STR, False)}, ('or', [STR, NUM]))
    ix2 = obj({'a': (BOOL, False), 'zzz': (lit('q'), False)})
    ix3 = obj({'a': (lit(1), True), 'b': (NUM, False)}, ('or', [NUM, NULL]))
    inter_rec = ('and', [obj({'id': (('or', [STR, NUM]), False), 'b': (NUM, False)}), obj({}, NUM)])
    cases += [
        {'kind': 'access', 'A': ('or', [ix1, ix2]), 'key': ['a', 'zzz']},
        {'kind': 'access', 'A': ('or', [ix1, ix3]), 'key': ['a', 'b']},
        {'kind': 'access', 'A': ('or', [ix1, ix3]), 'key': ['a', 'other']},
        {'kind': 'access', 'A': ('or', [ix1, ix3]), 'key': ['b', 'other']},
        {'kind': 'access', 'A': ('or', [ix1, ix3]), 'key': 'other'},
        {'kind': 'access', 'A': ('or', [ix3, obj({'a': (STR, True), 'b': (STR, False), 'other': (BOOL, True)})]), 'key': ['a', 'other']},
        {'kind': 'exclude', 'A': ('or', [inter_rec, STR]), 'B': STR},
        {'kind': 'exclude', 'A': ('or', [inter_rec, obj({'k': (lit('x'), False)}), NULL]), 'B': NULL},
        {'kind': 'access', 'A': ('or', [obj({'p': (inter_rec, False)}), obj({'p': (NUM, False), 'q': (STR, True)})]), 'key': 'p'},
        {'kind': 'keyof', 'A': ('or', [inter_rec, obj({'id': (STR, False)})])},
    ]
    # recursive operands / helper naming
    cases += [
        {'kind': 'exclude', 'A': ('or', [('ref', 'L1'), STR]), 'B': STR},
        {'kind': 'exclude', 'A': ('or', [('ref', 'Tree'), NULL]), 'B': NULL},
        {'kind': 'exclude', 'A': ('or', [('ref', 'Ev'), ('ref', 'Od'), STR]), 'B': ('ref', 'Od')},
        {'kind': 'exclude', 'A': ('or', [('arr', ('ref', 'L1')), NUM]), 'B': NUM},
        {'kind': 'exclude', 'A': ('or', [('ref', 'P2'), ('ref', 'PR'), NULL]), 'B': ('ref', 'P2')},
    ]
    return cases


def expected_taccess(t, n, env, depth=0):
    k = t[0]
    if depth > 20:
        return None
    if k == 'ref':
        return expected_taccess(env[t[1]], n, env, depth + 1)
    if k == 'tup':
        if n < len(t[1]):
            return t[1][n]
        return t[2]          # rest type; None when the tuple is closed (TypeScript rejects the access)
    if k == 'arr':
        return t[1]
    if k == 'or':
        parts = [expected_taccess(x, n, env, depth + 1) for x in t[1]]
        if any(p is None for p in parts):
            return None
        return ('or', parts)
    return None


def case_source(c, i):
    if c['kind'] == 'taccess':
        return f'type T{i} = {to_ts(c["A"])};\ntype R{i} = T{i}[{" | ".join(str(k) for k in c["keys"])}];'
    if c['kind'] == 'exclude':
        return f'type R{i} = Exclude<{to_ts(c["A"])}, {to_ts(c["B"])}>;'
    if c['kind'] == 'keyof':
        return f'type T{i} = {to_ts(c["A"])};\ntype R{i} = keyof T{i};'
    keys = c['key'] if isinstance(c['key'], list) else [c['key']]
    return f'type T{i} = {to_ts(c["A"])};\ntype R{i} = T{i}[{" | ".join(json.dumps(k) for k in keys)}];'


def program_for(cases_idx):
    lines = [f'type {n} = {to_ts(t)};' for n, t in NAMED.items()]
    for i, c in cases_idx:
        lines.append(case_source(c, i))
    lines.append('parse.buildParsers<{' + ', '.join(f'R{i}: R{i}' for i, _ in cases_idx) + '}>();')
    return '\n'.join(lines)


def compile_cases(cases_idx, interactions=None):
    """compile a chunk; on diagnostics / panic bisect to the cases that fail on their own.  If the chunk still fails once those
    are taken out, the failure is an interaction between cases (e.g. a helper name defined twice): it is minimised (ddmin-like)
    and recorded in `interactions`.  returns {i: result-dict}"""
    out = {}

    def is_bad(r):
        return bool(r.get('panic') or r.get('parse_error') or r.get('errors') or r.get('crash'))

    def run(chunk):
        src = program_for(chunk)
        return src, beffdrv('compile', {'files': {'entry.ts': src}}, timeout=300)

    bad_single = []

    def isolate(chunk, known=None):
        src, r = known if known else run(chunk)
        if not is_bad(r):
            for i, c in chunk:
                out[i] = {'src': src, 'res': r, 'alone': len(chunk) == 1}
            return
        if len(chunk) == 1:
            bad_single.append(chunk[0])
            out[chunk[0][0]] = {'src': src, 'res': r, 'alone': True}
            return
        mid = len(chunk) // 2
        isolate(chunk[:mid])
        isolate(chunk[mid:])
    src0, r0 = run(cases_idx)
    isolate(cases_idx, (src0, r0))
    if is_bad(r0):
        badset = set(i for i, _ in bad_single)
        rest = [(i, c) for i, c in cases_idx if i not in badset]
        if len(rest) > 1:
            s1, r1 = run(rest)
            if is_bad(r1):
                cur = rest
                n = 2
                while len(cur) > 2 and n <= len(cur):
                    size = max(1, len(cur) // n)
                    reduced = False
                    for k in range(0, len(cur), size):
                        cand = cur[:k] + cur[k + size:]
                        if len(cand) >= 2 and is_bad(run(cand)[1]):
                            cur = cand
                            n = max(2, n - 1)
                            reduced = True
                            break
                    if not reduced:
                        if size == 1:
                            break
                        n = min(len(cur), n * 2)
                if interactions is not None:
                    s_, r_ = run(cur)
                    interactions.append({'cases': cur, 'src': s_, 'res': r_})
                # results for the cases of a failing combination: take them from singleton compiles
                for i, c in rest:
                    if is_bad(out[i]['res']):
                        s_, r_ = run([(i, c)])
                        out[i] = {'src': s_, 'res': r_, 'alone': True}
    return out


def ir_env(res):
    env = {}
    unsupported = {}
    for v in res.get('validators', []):
        try:
            env[v['name']] = from_ir(v['schema'], set())
        except Unsupported as e:
            unsupported[v['name']] = str(e)
    return env, unsupported


def find_result(res, i):
    for v in res.get('validators', []):
        if f'name: "R{i}"' in v['name']:
            return v
    return None


# ---------------------------------------------------------------------------------------- oracle
def solve_diff(expected_fn, got_t, env_src, env_ir, types_for_bounds, timeout_ms=20000):
    """exists v. expected(v) != member(got, v)?   returns (verdict, witness, direction, bounds)"""
    keys = set(['zz'])
    L = 1
    D = 1
    rec = False
    for t, env in types_for_bounds:
        keys |= keys_of(t, env)
        L = max(L, max_tuple_len(t, env) + 1)
        D = max(D, depth_of(t, env))
        rec = rec or is_recursive(t, env)
    if rec:
        D += 2
    keys = sorted(keys)
    while (L + len(keys)) ** D > 6000 and D > 1:
        D -= 1
    v = Val(D, L, keys)
    strings = ['a', 'b', 'c', 'k', 'v', 'x', 'y', 'z', 'e', 'o']
    # beff's runtime conventions on both sides: null == undefined, optional property = absent or nullish
    sem_src = Sem(env_src, strings, nullish_equal=True, optional_nullish=True)
    sem_ir = Sem(env_ir, sem_src.strings, nullish_equal=True, optional_nullish=True)
    sem_ir.strings = sem_src.strings
    exp = expected_fn(sem_src, v)
    got = sem_ir.member(got_t, v, 'struct')
    s = z3.Solver()
    s.set('timeout', timeout_ms)
    s.add(v.cons)
    s.add(exp != got)
    r = s.check()
    bounds = {'D': D, 'L': L, 'keys': keys}
    if r == z3.unsat:
        return 'equal', None, None, bounds
    if r == z3.sat:
        m = s.model()
        w = v.concretise(m, sem_src.strings)
        direction = 'accepts-extra' if z3.is_true(m.eval(got, model_completion=True)) else 'rejects-member'
        return 'differ', w, direction, bounds
    return 'unknown', None, None, bounds


def check_case(args):
    i, c, resj = args
    try:
        return i, _check_case(i, c, resj)
    except Unsupported as e:
        return i, {'status': 'skipped', 'why': str(e)}
    except (RecursionError, NotImplementedError) as e:
        return i, {'status': 'skipped', 'why': 'oracle: ' + str(e)[:60]}
    except Exception:
        import traceback
        return i, {'status': 'oracle-error', 'why': traceback.format_exc()[-600:]}


def _check_case(i, c, resj):
    res = resj
    v = find_result(res, i)
    if v is None:
        return {'status': 'missing'}
    env_ir, unsup = ir_env(res)
    rname = v['name']
    if rname in unsup:
        raise Unsupported(unsup[rname])
    got_t = env_ir[rname]
    A = c['A']
    if c['kind'] == 'exclude':
        B = c['B']

        def exp(sem, val):
            return z3.And(sem.member(A, val, 'struct'), z3.Not(sem.member(B, val, 'struct')))
        bounds_types = [(A, NAMED), (B, NAMED), (got_t, env_ir)]
    elif c['kind'] == 'keyof':
        ks = expected_keyof(A, NAMED)
        if ks is None:
            return {'status': 'skipped', 'why': 'keyof of a non-object'}
        et = ('str',) if ks == 'string' else ('or', [('lit', k) for k in sorted(ks)])

        def exp(sem, val):
            return sem.member(et, val, 'struct')
        bounds_types = [(et, NAMED), (got_t, env_ir)]
    elif c['kind'] == 'taccess':
        parts = [expected_taccess(A, n, NAMED) for n in c['keys']]
        if any(p is None for p in parts):
            return {'status': 'skipped', 'why': 'index outside a closed tuple'}
        et = ('or', parts) if len(parts) > 1 else parts[0]

        def exp(sem, val):
            return sem.member(et, val, 'struct')
        bounds_types = [(et, NAMED), (got_t, env_ir)]
    else:
        if isinstance(c['key'], list):
            parts = [expected_access(A, k_, NAMED) for k_ in c['key']]
            et = None if any(p_ is None for p_ in parts) else ('or', parts)
        else:
            et = expected_access(A, c['key'], NAMED)
        if et is None:
            return {'status': 'skipped', 'why': 'access undefined for some member'}

        def exp(sem, val):
            return sem.member(et, val, 'struct')
        bounds_types = [(et, NAMED), (got_t, env_ir)]
    verdict, w, direction, bounds = solve_diff(exp, got_t, NAMED, env_ir, bounds_types)
    out = {'status': verdict, 'witness': w, 'direction': direction, 'bounds': bounds, 'got': to_ts_safe(got_t), 'has_not': has_not(got_t, env_ir)}
    if verdict == 'differ' and c['kind'] == 'exclude':
        # classify: value that is in B (should have been excluded) but the materialised type accepts it
        try:
            inA = in_type(A, w, 'struct', NAMED, True, True)
            inB = in_type(c['B'], w, 'struct', NAMED, True, True)
            out['inA'], out['inB'] = inA, inB
        except Exception:
            pass
    return out


def to_ts_safe(t):
    try:
        if t[0] == 'not':
            return 'Not<' + to_ts_safe(t[1]) + '>'
        if t[0] in ('or', 'and'):
            return '(' + (' | ' if t[0] == 'or' else ' & ').join(to_ts_safe(x) for x in t[1]) + ')'
        return to_ts(t)
    except Exception:
        return str(t)[:200]


def structural_value(w):
    """does the witness contain an object or array (then 'not' of a structural type is involved)"""
    return isinstance(w, (dict, list)) and not (isinstance(w, dict) and w.get('$undefined'))


def main(tier):
    rep = Report(PID, tier)
    rng = random.Random(seed())
    cases = gen_cases(tier, rng)
    idx = list(enumerate(cases))
    t0 = time.time()
    compiled = {}
    CH = 40
    interactions = []
    for c in range(0, len(idx), CH):
        compiled.update(compile_cases(idx[c:c + CH], interactions))
    for it in interactions:
        r = it['res']
        msg = str(r.get('panic') or json.dumps(r.get('errors')))[:200]
        rel = beffdrv('compile', {'files': {'entry.ts': it['src']}}, profile='release', timeout=120)
        progs = ' ; '.join(case_source(c, i).replace('\n', ' ') for i, c in it['cases'])[:400]
        if rel.get('panic') or rel.get('errors') or rel.get('crash'):
            rep.violation('c07:program-level:' + ('helper-defined-twice' if 'RecursiveGenerated' in msg or 'assert' in msg or 'left == right' in msg else msg[:40]),
                          f'each of these compiles alone but together the compiler fails ({msg}): {progs}',
                          {'cmd': 'compile', 'input': {'files': {'entry.ts': it['src']}}})
        else:
            rep.note_inconclusive('program-level failure did not reproduce in release: ' + progs)
    native_s = time.time() - t0
    stats = {'cases': len(cases), 'equal': 0, 'differ': 0, 'skipped': 0, 'unknown': 0, 'diagnostic': 0, 'panic': 0, 'unprintable': 0,
             'by_kind': {}}
    tasks = []
    for i, c in idx:
        r = compiled[i]['res']
        desc = case_source(c, i).replace('\n', ' ')
        if r.get('panic') or r.get('crash'):
            stats['panic'] += 1
            msg = str(r.get('panic') or r.get('stderr'))[:160]
            # replay natively in both profiles
            rel = beffdrv('compile', {'files': {'entry.ts': compiled[i]['src']}}, profile='release', timeout=120)
            if rel.get('panic') or rel.get('crash'):
                rep.violation(f'c07:panic:{msg.split("@")[-1].strip()[:60]}', f'compiler panics while materialising a semantic type: {desc}: {msg}',
                              {'cmd': 'compile', 'input': {'files': {'entry.ts': compiled[i]['src']}}})
            else:
                rep.note_inconclusive(f'panic for {desc} did not reproduce in release')
            continue
        if r.get('errors') or r.get('parse_error'):
            stats['diagnostic'] += 1
            msg = json.dumps(r.get('errors') or r.get('parse_error'))[:200]
            if 'RecursiveGenerated' in msg or 'reference not found' in msg or 'AnyName' in msg:
                rep.violation('c07:dangling-helper-reference', f'materialised type refers to a helper that is not defined: {desc}: {msg}',
                              {'cmd': 'compile', 'input': {'files': {'entry.ts': compiled[i]['src']}}})
            continue
        if r.get('emit_panic') or r.get('emit_error'):
            stats['unprintable'] += 1
            msg = str(r.get('emit_panic') or r.get('emit_error'))[:200]
            if compiled[i]['alone'] or True:
                one = beffdrv('compile', {'files': {'entry.ts': program_for([(i, c)])}}, timeout=120)
                if one.get('emit_panic') or one.get('emit_error'):
                    v = find_result(one, i)
                    shape = 'not' if v and '"k": "not"' in json.dumps(v['schema']) else 'other'
                    rep.violation(f'c07:unprintable:{shape}', f'materialised type cannot be printed by the code generator: {desc}: '
                                                               f'{str(one.get("emit_panic") or one.get("emit_error"))[:160]}',
                                  {'cmd': 'compile', 'input': {'files': {'entry.ts': program_for([(i, c)])}}})
                    continue
                r = one
                compiled[i]['res'] = one
            else:
                continue
        tasks.append((i, c, compiled[i]['res']))
    t1 = time.time()
    results = {}
    with mp.Pool(min(16, os.cpu_count() or 4)) as pool_:
        for i, r in pool_.imap_unordered(check_case, tasks, chunksize=4):
            results[i] = r
    oracle_s = time.time() - t1
    samples = []
    for i, c in idx:
        if i not in results:
            continue
        r = results[i]
        k = c['kind']
        stats['by_kind'].setdefault(k, {'equal': 0, 'differ': 0, 'skipped': 0})
        desc = case_source(c, i).replace('\n', ' ')
        st = r['status']
        if st == 'equal':
            stats['equal'] += 1
            stats['by_kind'][k]['equal'] += 1
            if len(samples) < 5:
                samples.append({'program': desc, 'materialised': r['got'], 'verdict': 'same value set', 'bounds': r['bounds']})
        elif st == 'differ':
            stats['differ'] += 1
            stats['by_kind'][k]['differ'] += 1
            w = r['witness']
            if k == 'exclude' and r['direction'] == 'accepts-extra' and r.get('inB') and structural_value(w):
                key = 'c07:exclude:negated-structural-type-dropped'
            elif k == 'exclude' and r['direction'] == 'accepts-extra' and r.get('inB') and r.get('has_not'):
                key = 'c07:exclude:union-of-negated-literals'
            else:
                key = f'c07:{k}:{r["direction"]}:{type(w).__name__}'
            rep.violation(key, f'{desc} is materialised as {r["got"]}, which {("accepts" if r["direction"] == "accepts-extra" else "rejects")} '
                               f'{json.dumps(w)} unlike the computed type', {'cmd': 'compile', 'input': {'files': {'entry.ts': program_for([(i, c)])}}, 'witness': w})
        elif st in ('skipped', 'missing'):
            stats['skipped'] += 1
            stats['by_kind'][k]['skipped'] += 1
        elif st == 'unknown':
            stats['unknown'] += 1
        else:
            rep.note_inconclusive(f'oracle error on {desc}: {r.get("why")}')
    if stats['unknown'] > len(cases) // 10:
        rep.note_inconclusive(f'solver undecided on {stats["unknown"]} cases')
    coverage = {
        'programs': len(cases),
        'disagreements_checked': stats['differ'],
        'samples': samples or [{'program': case_source(cases[0], 0)}],
        'stats': stats,
        'explanation': 'each program computes one type semantically (Exclude / keyof / indexed access) through the real frontend; z3 compares the '
                       'materialised Runtype with the meaning of the computed type over all values of a bounded symbolic value',
        'native_s': round(native_s, 1), 'oracle_wall_s': round(oracle_s, 1),
        'bounds': 'value template: depth = nesting depth of operands/result (+2 recursive), arrays <= longest tuple + 1, keys = declared + 1 fresh',
        'outside_claim': ['operand types outside the grammar', 'Date/bigint/Map/Set/typed arrays/template literals/formats', 'indexed access on tuples'],
    }
    assumptions = ['membership is read structurally on both sides (validator default mode)', 'keyof/indexed-access reference = TypeScript\'s definition '
                   'on the source type AST (declared keys; member type union)', 'z3 4.8.12']
    return rep.finish('translation_validation', coverage, assumptions)


def replay(path):
    d = json.load(open(path))
    r = beffdrv('compile', d['replay']['input'])
    print(json.dumps({k: r.get(k) for k in ('types', 'errors', 'panic', 'emit_panic', 'emit_error')}))
    return 0
