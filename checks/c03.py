"""C03 — see checks/valcheck.py and DESIGN.md section 5"""
from checks import valcheck

PID = 'C03'


def main(tier):
    rep, agg = valcheck.run(PID, tier)
    return valcheck.finish(rep, agg, PID, tier, EXPLANATION, OUTSIDE)


def replay(path):
    import json
    from checks import c13
    c13.build_runtime()
    d = json.load(open(path))
    r = valcheck.run_harness(d['replay']['job'], valcheck.RT, timeout=120)
    print(json.dumps(r)[:2000])
    return 1 if [v for v in r.get('violations', []) if v['prop'] == PID] else 0

EXPLANATION = ('validate / safeParse / parse of the real runtime are run on the same symbolic input under each option set; per path: the three agree, nothing '
               'but parse\'s failure error is thrown, parsed data is a projection of the input (leaf identity), is accepted again, re-parses to an equal '
               'value, objectKeyOrder changes order only, and lazily materialised input objects trap every mutation')
OUTSIDE = ['validators and values beyond the enumerated trees / template bounds', 'custom string/number formats (user callbacks)', 'getters / proxies as inputs']
