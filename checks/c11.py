"""C11 — see checks/valcheck.py and DESIGN.md section 5"""
from checks import valcheck

PID = 'C11'


def main(tier):
    rep, agg = valcheck.run(PID, tier)
    return valcheck.finish(rep, agg, PID, tier, EXPLANATION, OUTSIDE)


def replay(path):
    import json
    from checks import c13
    c13.build_runtime()
    d = json.load(open(path))
    r = valcheck.run_harness(d['replay']['job'], valcheck.RT, timeout=120)
    print(json.dumps(r)[:2000])
    return 1 if [v for v in r.get('violations', []) if v['prop'] == PID] else 0

EXPLANATION = ('per path: validate(v, {disallowExtraProperties: true}) is compared with validate(v) AND "no key beyond those declared at every object position" '
               '(reference computed on the validator description: union = the branch that matches, intersection = keys of all members, index signature admits its keys)')
OUTSIDE = ['validators and values beyond the enumerated trees / template bounds', 'custom formats']
