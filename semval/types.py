"""E3 semval: a small type language (the fragment the properties quantify over), its TypeScript rendering, and its
value-set semantics as z3 formulas over a bounded symbolic JS value.

Types are tuples:
  ('null',) ('undef',) ('bool',) ('num',) ('str',) ('lit', v)  v: bool | int | float | str
  ('arr', T) ('tup', [T..], rest|None) ('obj', {key: (T, optional)}, index|None)   index = T (string keys)
  ('or', [T..]) ('and', [T..]) ('ref', name) ('never',) ('any',)
  ('not', T)  (only produced when reading beff's IR)
"""
import json
import z3

KINDS = ['undef', 'null', 'bool', 'num', 'str', 'arr', 'obj']
KI = {k: i for i, k in enumerate(KINDS)}


def to_ts(t):
    k = t[0]
    if k in ('null',):
        return 'null'
    if k == 'undef':
        return 'undefined'
    if k == 'bool':
        return 'boolean'
    if k == 'num':
        return 'number'
    if k == 'str':
        return 'string'
    if k == 'never':
        return 'never'
    if k == 'any':
        return 'any'
    if k == 'lit':
        return json.dumps(t[1])
    if k == 'arr':
        return f'Array<{to_ts(t[1])}>'
    if k == 'tup':
        items = [to_ts(x) for x in t[1]]
        if t[2] is not None:
            items.append(f'...Array<{to_ts(t[2])}>')
        return '[' + ', '.join(items) + ']'
    if k == 'obj':
        parts = [f'{json.dumps(key)}{"?" if opt else ""}: {to_ts(ty)}' for key, (ty, opt) in t[1].items()]
        if t[2] is not None:
            parts.append(f'[k: {idx_dom(t).replace("+", " | ")}]: {to_ts(t[2])}')
        return '{ ' + '; '.join(parts) + ' }'
    if k == 'or':
        return '(' + ' | '.join(to_ts(x) for x in t[1]) + ')'
    if k == 'and':
        # `base & not X` is spelled Exclude<base, X>
        nots = [x for x in t[1] if x[0] == 'not']
        if nots:
            rest = [x for x in t[1] if x[0] != 'not']
            base = to_ts(rest[0]) if len(rest) == 1 else '(' + ' & '.join(to_ts(x) for x in rest) + ')'
            for n in nots:
                base = f'Exclude<{base}, {to_ts(n[1])}>'
            return base
        return '(' + ' & '.join(to_ts(x) for x in t[1]) + ')'
    if k == 'ref':
        return t[1]
    raise Exception(f'to_ts {t}')


def idx_dom(t):
    """key domain of an object type's index signature: 'string' (default), 'number', 'string+number'"""
    return t[3] if len(t) > 3 else 'string'


def key_in_dom(key, dom):
    if dom == 'number':
        return key.isdigit()
    return True


def keys_of(t, env, seen=None, acc=None):
    acc = set() if acc is None else acc
    seen = set() if seen is None else seen
    k = t[0]
    if k == 'obj':
        for key, (ty, _) in t[1].items():
            acc.add(key)
            keys_of(ty, env, seen, acc)
        if t[2] is not None:
            keys_of(t[2], env, seen, acc)
            if idx_dom(t) == 'number':
                acc.add('0')
    elif k in ('arr', 'not'):
        keys_of(t[1], env, seen, acc)
    elif k == 'tup':
        for x in t[1]:
            keys_of(x, env, seen, acc)
        if t[2] is not None:
            keys_of(t[2], env, seen, acc)
    elif k in ('or', 'and'):
        for x in t[1]:
            keys_of(x, env, seen, acc)
    elif k == 'ref' and t[1] not in seen:
        seen.add(t[1])
        keys_of(env[t[1]], env, seen, acc)
    return acc


def depth_of(t, env, seen=()):
    k = t[0]
    if k == 'obj':
        ds = [depth_of(ty, env, seen) for ty, _ in t[1].values()] + ([depth_of(t[2], env, seen)] if t[2] is not None else [])
        return 1 + max(ds + [0])
    if k in ('arr',):
        return 1 + depth_of(t[1], env, seen)
    if k == 'not':
        return depth_of(t[1], env, seen)
    if k == 'tup':
        ds = [depth_of(x, env, seen) for x in t[1]] + ([depth_of(t[2], env, seen)] if t[2] is not None else [])
        return 1 + max(ds + [0])
    if k in ('or', 'and'):
        return max([depth_of(x, env, seen) for x in t[1]] + [0])
    if k == 'ref':
        if t[1] in seen:
            return 0
        return depth_of(env[t[1]], env, seen + (t[1],))
    return 0


def is_recursive(t, env, stack=()):
    k = t[0]
    if k == 'ref':
        if t[1] in stack:
            return True
        return is_recursive(env[t[1]], env, stack + (t[1],))
    if k == 'obj':
        return any(is_recursive(ty, env, stack) for ty, _ in t[1].values()) or (t[2] is not None and is_recursive(t[2], env, stack))
    if k in ('arr', 'not'):
        return is_recursive(t[1], env, stack)
    if k == 'tup':
        return any(is_recursive(x, env, stack) for x in t[1]) or (t[2] is not None and is_recursive(t[2], env, stack))
    if k in ('or', 'and'):
        return any(is_recursive(x, env, stack) for x in t[1])
    return False


def max_tuple_len(t, env, seen=None):
    seen = set() if seen is None else seen
    k = t[0]
    if k == 'tup':
        return max([len(t[1])] + [max_tuple_len(x, env, seen) for x in t[1]] + ([max_tuple_len(t[2], env, seen)] if t[2] is not None else []))
    if k == 'obj':
        return max([max_tuple_len(ty, env, seen) for ty, _ in t[1].values()] + ([max_tuple_len(t[2], env, seen)] if t[2] is not None else []) + [0])
    if k in ('arr', 'not'):
        return max_tuple_len(t[1], env, seen)
    if k in ('or', 'and'):
        return max([max_tuple_len(x, env, seen) for x in t[1]] + [0])
    if k == 'ref' and t[1] not in seen:
        seen.add(t[1])
        return max_tuple_len(env[t[1]], env, seen)
    return 0


# ---------------------------------------------------------------------------------- symbolic value
class Val:
    """bounded symbolic JS value: a template tree. strings are integer codes (code i < len(strings) is a named literal,
    larger codes are fresh strings); numbers are mathematical reals restricted to integers plus a 'fractional' flag."""
    _n = [0]

    def __init__(self, depth, L, keys, name='v', kinds=None):
        Val._n[0] += 1
        self.name = f'{name}{Val._n[0]}'
        n = self.name
        self.depth = depth
        self.kind = z3.Int(n + '_kind')
        self.b = z3.Bool(n + '_b')
        self.num = z3.Int(n + '_num')
        self.frac = z3.Bool(n + '_frac')       # number is not an integer (then it equals no integer literal)
        self.s = z3.Int(n + '_str')
        self.keys = list(keys)
        self.L = L
        self.cons = [self.kind >= 0, self.kind < len(KINDS), self.s >= 0]
        if depth > 0:
            self.len = z3.Int(n + '_len')
            self.cons += [self.len >= 0, self.len <= L]
            self.elems = [Val(depth - 1, L, keys, name) for _ in range(L)]
            self.has = {k: z3.Bool(f'{n}_has_{i}') for i, k in enumerate(self.keys)}
            self.props = {k: Val(depth - 1, L, keys, name) for k in self.keys}
            for c in self.elems + list(self.props.values()):
                self.cons += c.cons
        else:
            self.cons += [self.kind != KI['arr'], self.kind != KI['obj']]
            self.len = None
            self.elems = []
            self.has = {}
            self.props = {}

    def is_kind(self, k):
        return self.kind == KI[k]

    def concretise(self, model, strings):
        k = model.eval(self.kind, model_completion=True).as_long()
        kind = KINDS[k]
        if kind == 'undef':
            return {'$undefined': True}
        if kind == 'null':
            return None
        if kind == 'bool':
            return z3.is_true(model.eval(self.b, model_completion=True))
        if kind == 'num':
            v = model.eval(self.num, model_completion=True).as_long()
            if z3.is_true(model.eval(self.frac, model_completion=True)):
                return v + 0.5
            return v
        if kind == 'str':
            c = model.eval(self.s, model_completion=True).as_long()
            return strings[c] if c < len(strings) else f'fresh{c}'
        if kind == 'arr':
            n = model.eval(self.len, model_completion=True).as_long()
            return [self.elems[i].concretise(model, strings) for i in range(n)]
        out = {}
        for key in self.keys:
            if z3.is_true(model.eval(self.has[key], model_completion=True)):
                out[key] = self.props[key].concretise(model, strings)
        return out


class Sem:
    """membership formulas. mode: 'exact' (declared keys only) | 'struct' (extra keys allowed)"""

    def __init__(self, env, strings, nullish_equal=False, optional_nullish=False):
        self.env = env
        self.strings = list(strings)
        self.nullish_equal = nullish_equal          # beff runtime convention: null == undefined
        self.optional_nullish = optional_nullish    # optional property may be absent or nullish

    def scode(self, s):
        if s not in self.strings:
            self.strings.append(s)
        return self.strings.index(s)

    def member(self, t, v, mode, fuel=40):
        k = t[0]
        T, F = z3.BoolVal(True), z3.BoolVal(False)
        if fuel <= 0:
            raise RecursionError('type unfolding fuel')
        if k == 'any':
            return T
        if k == 'never':
            return F
        if k == 'null':
            return z3.Or(v.is_kind('null'), v.is_kind('undef')) if self.nullish_equal else v.is_kind('null')
        if k == 'undef':
            return z3.Or(v.is_kind('null'), v.is_kind('undef')) if self.nullish_equal else v.is_kind('undef')
        if k == 'bool':
            return v.is_kind('bool')
        if k == 'num':
            return v.is_kind('num')
        if k == 'str':
            return v.is_kind('str')
        if k == 'lit':
            x = t[1]
            if isinstance(x, bool):
                return z3.And(v.is_kind('bool'), v.b == x)
            if isinstance(x, int):
                return z3.And(v.is_kind('num'), z3.Not(v.frac), v.num == x)
            if isinstance(x, float):
                if x == int(x):
                    return z3.And(v.is_kind('num'), z3.Not(v.frac), v.num == int(x))
                return z3.And(v.is_kind('num'), v.frac, v.num == int(x - 0.5)) if (x - 0.5) == int(x - 0.5) else F
            return z3.And(v.is_kind('str'), v.s == self.scode(x))
        if k == 'or':
            return z3.Or([self.member(x, v, mode, fuel - 1) for x in t[1]]) if t[1] else F
        if k == 'and':
            return self.member_and(t[1], v, mode, fuel - 1)
        if k == 'not':
            return z3.Not(self.member(t[1], v, 'struct', fuel - 1))
        if k == 'ref':
            return self.member(self.env[t[1]], v, mode, fuel - 1)
        if v.depth == 0:
            return F
        if k == 'arr':
            return z3.And([v.is_kind('arr')] + [z3.Implies(v.len > i, self.member(t[1], v.elems[i], mode, fuel - 1)) for i in range(v.L)])
        if k == 'tup':
            pre, rest = t[1], t[2]
            if len(pre) > v.L:
                return F
            cs = [v.is_kind('arr')]
            cs.append(v.len == len(pre) if rest is None else v.len >= len(pre))
            for i, x in enumerate(pre):
                cs.append(self.member(x, v.elems[i], mode, fuel - 1))
            if rest is not None:
                for i in range(len(pre), v.L):
                    cs.append(z3.Implies(v.len > i, self.member(rest, v.elems[i], mode, fuel - 1)))
            return z3.And(cs)
        if k == 'obj':
            cs = [v.is_kind('obj')]
            for key in v.keys:
                if key in t[1]:
                    ty, opt = t[1][key]
                    m = self.member(ty, v.props[key], mode, fuel - 1)
                    if opt:
                        if self.optional_nullish:
                            m = z3.Or(m, v.props[key].is_kind('null'), v.props[key].is_kind('undef'))
                        cs.append(z3.Or(z3.Not(v.has[key]), m))
                    else:
                        cs.append(z3.And(v.has[key], m))
                elif t[2] is not None and key_in_dom(key, idx_dom(t)):
                    cs.append(z3.Implies(v.has[key], self.member(t[2], v.props[key], mode, fuel - 1)))
                elif mode == 'exact':
                    cs.append(z3.Not(v.has[key]))
            for key in t[1]:
                if key not in v.keys and not t[1][key][1]:
                    return F     # a required key outside the template: cannot be represented
            return z3.And(cs)
        raise Exception(f'member {t}')

    def member_and(self, ts, v, mode, fuel):
        """intersection: structurally the conjunction; exactly: conjunction of structural membership plus 'no key beyond those
        declared by any member' at this position (objects are merged position-wise)"""
        if mode == 'struct':
            return z3.And([self.member(x, v, 'struct', fuel) for x in ts])
        merged = merge_and(ts, self.env)
        if merged is not None:
            return self.member(merged, v, 'exact', fuel)
        # no object members involved at the top: exactness distributes
        return z3.And([self.member(x, v, 'exact', fuel) for x in ts])


def resolve(t, env, guard=0):
    while t[0] == 'ref' and guard < 50:
        t = env[t[1]]
        guard += 1
    return t


def merge_and(ts, env):
    """normalise an intersection for the exact reading: distribute over unions, merge object members property-wise.
    returns an equivalent type without a top-level 'and' of objects, or None when nothing needs merging"""
    ts = [resolve(x, env) for x in ts]
    flat = []
    for x in ts:
        if x[0] == 'and':
            flat += [resolve(y, env) for y in x[1]]
        else:
            flat.append(x)
    ts = flat
    for i, x in enumerate(ts):
        if x[0] == 'or':
            rest = ts[:i] + ts[i + 1:]
            return ('or', [('and', [alt] + rest) for alt in x[1]])
    objs = [x for x in ts if x[0] == 'obj']
    if any(idx_dom(o) == 'number' for o in objs):
        raise NotImplementedError('intersection of objects with non-string index key domains')
    if len(objs) < 2:
        if len(objs) == 1 and len(ts) > 1:
            return None
        return None
    others = [x for x in ts if x[0] != 'obj']
    props = {}
    index_members = [o[2] for o in objs if o[2] is not None]
    for o in objs:
        for key, (ty, opt) in o[1].items():
            if key in props:
                pty, popt = props[key]
                props[key] = (('and', [pty, ty]), popt and opt)
            else:
                props[key] = (ty, opt)
    # a key declared by one member must also satisfy the index signature of the others
    for key in list(props):
        extra = [o[2] for o in objs if o[2] is not None and key not in o[1]]
        if extra:
            props[key] = (('and', [props[key][0]] + extra), props[key][1])
    # keys admitted by the index signature of one member are declared keys of the intersection; members without an index
    # signature put no (structural) constraint on them
    index = None
    if index_members:
        index = ('and', index_members) if len(index_members) > 1 else index_members[0]
    merged = ('obj', props, index)
    if others:
        return ('and', [merged] + others) if False else _and_with_others(merged, others)
    return merged


def _and_with_others(obj, others):
    # an object intersected with a non-object, non-union type is empty unless the other is 'any'
    rest = [o for o in others if o[0] != 'any']
    if not rest:
        return obj
    return ('never',)


# ----------------------------------------------------------------------------- concrete evaluator
def in_type(t, x, mode, env, nullish_equal=False, optional_nullish=False, fuel=60):
    """independent concrete evaluator (used to validate every solver witness before it is reported)"""
    k = t[0]
    if fuel <= 0:
        raise RecursionError()
    undef = isinstance(x, dict) and x.get('$undefined') is True
    if k == 'any':
        return True
    if k == 'never':
        return False
    if k in ('null', 'undef'):
        if nullish_equal:
            return x is None or undef
        return (x is None) if k == 'null' else undef
    if k == 'bool':
        return isinstance(x, bool)
    if k == 'num':
        return isinstance(x, (int, float)) and not isinstance(x, bool)
    if k == 'str':
        return isinstance(x, str)
    if k == 'lit':
        return type(x) == type(t[1]) and x == t[1] or (isinstance(x, (int, float)) and not isinstance(x, bool)
                                                       and isinstance(t[1], (int, float)) and not isinstance(t[1], bool) and x == t[1])
    if k == 'or':
        return any(in_type(y, x, mode, env, nullish_equal, optional_nullish, fuel - 1) for y in t[1])
    if k == 'not':
        return not in_type(t[1], x, 'struct', env, nullish_equal, optional_nullish, fuel - 1)
    if k == 'ref':
        return in_type(env[t[1]], x, mode, env, nullish_equal, optional_nullish, fuel - 1)
    if k == 'and':
        if mode == 'struct':
            return all(in_type(y, x, 'struct', env, nullish_equal, optional_nullish, fuel - 1) for y in t[1])
        m = merge_and(t[1], env)
        if m is not None:
            return in_type(m, x, 'exact', env, nullish_equal, optional_nullish, fuel - 1)
        return all(in_type(y, x, 'exact', env, nullish_equal, optional_nullish, fuel - 1) for y in t[1])
    if k == 'arr':
        return isinstance(x, list) and all(in_type(t[1], y, mode, env, nullish_equal, optional_nullish, fuel - 1) for y in x)
    if k == 'tup':
        if not isinstance(x, list):
            return False
        pre, rest = t[1], t[2]
        if len(x) < len(pre) or (rest is None and len(x) != len(pre)):
            return False
        if not all(in_type(p, y, mode, env, nullish_equal, optional_nullish, fuel - 1) for p, y in zip(pre, x)):
            return False
        return all(in_type(rest, y, mode, env, nullish_equal, optional_nullish, fuel - 1) for y in x[len(pre):])
    if k == 'obj':
        if not isinstance(x, dict) or undef:
            return False
        for key, (ty, opt) in t[1].items():
            if key in x:
                ok = in_type(ty, x[key], mode, env, nullish_equal, optional_nullish, fuel - 1)
                if not ok and opt and optional_nullish and (x[key] is None or (isinstance(x[key], dict) and x[key].get('$undefined'))):
                    ok = True
                if not ok:
                    return False
            elif not opt:
                return False
        for key in x:
            if key not in t[1]:
                if t[2] is not None and key_in_dom(key, idx_dom(t)):
                    if not in_type(t[2], x[key], mode, env, nullish_equal, optional_nullish, fuel - 1):
                        return False
                elif mode == 'exact':
                    return False
        return True
    raise Exception(f'in_type {t}')
