#!/usr/bin/env python3
"""MANIFEST.setup_cmd: build everything the checks need from files on disk only (offline)."""
import sys, os
sys.path.insert(0, os.path.dirname(os.path.abspath(__file__)))
from lib.common import mir_dump, beffdrv_build
print('mir:', mir_dump('beff-core'))
print('beffdrv:', beffdrv_build('dev'))
print('beffdrv:', beffdrv_build('release'))
from checks import c13
c13.build_runtime()
print('tsx + stripped/instrumented runtime built')
from checks import c14
print('mir:', mir_dump('beff-wasm'))
print('wasmdrv:', c14.wasmdrv_build())
